"""C10.R3 — AOT metadata records: the assembly writer and the start-up reader agree on every record layout.

Writer side (HIR of `dora_compiler::assembly`): an abstract interpreter inlines everything reachable from
`write_assembly` that takes the `AssemblySyntax` and turns the emitted *lines* into events.  The only primitive is the
place where a `fmt::Arguments` reaches `io::Write::write_fmt`; what a line means is read off its format template
(`.quad {}` / `DQ {}` = one 8-byte datum, `{}:` = a label, `.p2align {}` = alignment ...).  The helper methods
(`write_quad_symbol_offset`, `write_align8`, `write_label` ...) are therefore summarised from their own bodies; both
object-format arms of a helper have to emit the same thing or the branch survives and the section is not decidable.

Reader side (HIR + MIR of `dora_startup`): a *table reader* is any function that hands one of its pointer parameters to
`slice::from_raw_parts`; each call that passes `addr_of!(<extern static>)` maps that static's link symbol to the
element type the call is instantiated with (MIR generic arguments).  `addr_of!(static).cast::<T>()` maps a symbol to a
`T` descriptor (the shape space).  Nothing is listed by hand: the section -> struct table is what the code says.

Decided per symbol: the events between `label(<start symbol>)` and the next global label are one loop whose body is a
fixed sequence of data directives; widths, count and running offsets equal the `#[repr(C)]` layout (rustc layout facts:
offset/size/total size/align, padding has to be written explicitly), the region ends at the symbol the reader uses as
end, the start alignment established by the writer is at least `align_of` the element, and no writer field carries
the (normalised) name of a *different* reader field.
"""
import json
import re

import facts
import hirq
from hirq import def_path, is_node, last, strip

ASM_MOD = "dora_compiler::assembly"
SYNTAX_TY = "dora_compiler::assembly::AssemblySyntax"
ROOT = "dora_compiler::assembly::write_assembly"
READER_CRATE = "dora_startup"
SHAPE_MIRROR = "dora_compiler::abi::ShapeLayout"      # anchor named by the property text: compiler-side ABI mirror

# Assembler directive semantics are not repository code (GNU as / LLVM MC and MASM manuals): width in bytes of ONE
# value of a data directive.  `.word`/`.int` are target dependent and deliberately absent (=> not decidable).
DATA_DIRECTIVES = {".byte": 1, "DB": 1, ".short": 2, ".hword": 2, ".2byte": 2, "DW": 2, ".long": 4, ".4byte": 4,
                   "DD": 4, ".quad": 8, ".8byte": 8, ".xword": 8, "DQ": 8}
FILL_DIRECTIVES = {".zero", ".space", ".skip", ".fill"}
GLOBAL_DIRECTIVES = {".globl", ".global", "PUBLIC"}
SECTION_DIRECTIVES = {".section", ".text", ".code", ".const", ".data", ".data?", ".bss", ".rodata"}
ALIGN_DIRECTIVES = {".p2align": "exp", "ALIGN": "bytes", ".balign": "bytes"}
NO_BYTES_DIRECTIVES = {"EXTERN", "OPTION", "END", ".type", ".size", ".file", ".ident", ".extern", ".weak"}
# sizes of Rust scalar types on the 64-bit host the facts are produced for (language facts)
PRIM_SIZE = {"u8": 1, "i8": 1, "bool": 1, "u16": 2, "i16": 2, "u32": 4, "i32": 4, "f32": 4, "u64": 8, "i64": 8,
             "f64": 8, "usize": 8, "isize": 8}
PANICS = ("core::panicking::", "std::rt::begin_panic", "core::option::expect_failed", "core::result::unwrap_failed",
          "core::option::unwrap_failed", "std::process::abort", "std::process::exit")
MAX_DEPTH = 24


class Unsupported(Exception):
    pass


class AVal:
    """abstract value: a literal (if known), the literal/expr sources it derives from, or a format template"""
    __slots__ = ("lit", "srcs", "fmt", "closure", "name")

    def __init__(self, lit=None, srcs=(), fmt=None, closure=None, name=None):
        self.lit = lit
        self.srcs = tuple(srcs)
        self.fmt = fmt
        self.closure = closure
        # the string literal this value is a rendering of (kept only through single-input transformations such as
        # to_string / format!("_{}", x) / a platform prefix helper, and through branches whose arms agree)
        self.name = name if name is not None else (lit if isinstance(lit, str) else None)

    def str_sources(self):
        out = []
        for s in self.srcs:
            if isinstance(s, str) and s not in out:
                out.append(s)
        return out


def join(*vals):
    srcs = []
    for v in vals:
        if v is None:
            continue
        for s in v.srcs:
            if s not in srcs:
                srcs.append(s)
    return AVal(None, srcs)


def join_same(*vals):
    """join of alternative values (branch arms): a name survives when every alternative carries the same one"""
    v = join(*vals)
    names = {x.name for x in vals if x is not None}
    if len(names) == 1 and None not in names:
        v.name = names.pop()
    return v


def derive1(v):
    """result of a pure single-input transformation"""
    return AVal(None, v.srcs, name=v.name)


def parse_bytestr(text):
    """rustc's compact format template ("ByteStr([3, 68, 81, 32, 192, 0], Cooked)"): n<128 = literal piece of n
    bytes, >=128 = argument placeholder (flag bytes may follow: kept opaque), 0 = end"""
    m = re.search(r"ByteStr\(\[([0-9,\s]*)\]", text or "")
    if not m:
        return None
    bs = [int(x) for x in m.group(1).replace(" ", "").split(",") if x]
    pieces = []
    i = 0
    while i < len(bs):
        b = bs[i]
        if b == 0:
            break
        if b < 128:
            pieces.append(("lit", bytes(bs[i + 1:i + 1 + b]).decode("utf-8", "replace")))
            i += 1 + b
        else:
            pieces.append(("arg", None))
            i += 1
            # explicit position / format spec bytes: only the plain `{}` form (0xC0) is used by the line writers;
            # anything else keeps the placeholder but makes the following literal unreliable => mark
            if b != 192:
                pieces.append(("spec", b))
    return pieces


class Frame:
    __slots__ = ("path", "line", "args", "is_method")

    def __init__(self, path):
        self.path = path
        self.line = None
        self.args = None
        self.is_method = path.startswith(SYNTAX_TY + "::")


class Asm:
    def __init__(self, c):
        self.c = c
        self.stack = []
        self.pending = None
        self.notes = []

    # ------------------------------------------------------------------ events
    def attribution(self):
        for fr in reversed(self.stack):
            if not fr.is_method:
                return fr
        return self.stack[0] if self.stack else None

    def event(self, out, k, **kw):
        fr = self.attribution()
        ev = {"k": k, "fn": fr.path if fr else None, "line": fr.line if fr else None,
              "args": fr.args if fr else None}
        ev.update(kw)
        out.append(ev)

    def line_event(self, out, v):
        """one assembly line whose text is the format value `v`"""
        if v is None or v.fmt is None:
            self.event(out, "var", what="unformatted line")
            return
        pieces, args = v.fmt
        if any(p[0] == "spec" for p in pieces):
            self.event(out, "var", what="format spec")
            return
        text0 = pieces[0][1] if pieces and pieces[0][0] == "lit" else ""
        if not pieces or (len(pieces) == 1 and pieces[0][0] == "lit" and not text0.strip()):
            return
        if pieces[0][0] == "arg":
            rest = pieces[1:]
            if len(rest) == 1 and rest[0][0] == "lit" and rest[0][1].strip() == ":":
                self.event(out, "label", name=args[0].name if args else None)
                return
            self.event(out, "var", what="line starting with an argument")
            return
        m = re.match(r"\s*([.A-Za-z_][\w.?]*)", text0)
        word = m.group(1) if m else ""
        after = text0[m.end():] if m else text0
        nargs = sum(1 for p in pieces if p[0] == "arg")
        if word in DATA_DIRECTIVES:
            tail_lit = [p for p in pieces[1:] if p[0] == "lit" and p[1].strip()]
            if nargs == 1 and not after.strip() and not tail_lit:
                self.event(out, "data", w=DATA_DIRECTIVES[word], val=args[0] if args else None, directive=word)
            elif nargs == 0 and after.strip() and "," not in after:
                self.event(out, "data", w=DATA_DIRECTIVES[word], val=AVal(after.strip(), [after.strip()]),
                           directive=word)
            else:
                self.event(out, "var", what="%s with a composite operand" % word)
            return
        if word in FILL_DIRECTIVES:
            self.event(out, "var", what=word)
            return
        if word in GLOBAL_DIRECTIVES:
            self.event(out, "global", name=args[0].name if len(args) == 1 else None)
            return
        if word in SECTION_DIRECTIVES:
            names = [after.strip()] if after.strip() else []
            names += [a.name for a in args if a.name]
            self.event(out, "section", names=names, directive=word)
            return
        if word in ALIGN_DIRECTIVES:
            n = None
            if nargs == 1 and args and isinstance(args[0].lit, int):
                n = (1 << args[0].lit) if ALIGN_DIRECTIVES[word] == "exp" else args[0].lit
            self.event(out, "align", n=n, directive=word)
            return
        if word in NO_BYTES_DIRECTIVES:
            return
        self.event(out, "var", what="code line %r" % text0.strip()[:24])

    # ------------------------------------------------------------------ environment
    def bind(self, pat, v, env):
        if not is_node(pat):
            return
        k = pat[0]
        if k == "pbind":
            env[pat[1]] = v
            if pat[2] is not None:
                self.bind(pat[2], v, env)
        elif k in ("ptuple", "por"):
            for p in pat[1]:
                self.bind(p, AVal(None, v.srcs if v else ()), env)
        elif k == "pts":
            for p in pat[2]:
                self.bind(p, AVal(None, v.srcs if v else ()), env)
        elif k == "pstruct":
            for _f, p in pat[2]:
                self.bind(p, AVal(None, v.srcs if v else ()), env)
        elif k == "pref":
            self.bind(pat[1], v, env)

    # ------------------------------------------------------------------ calls
    def takes_syntax(self, path):
        b = self.c.hir.get(path)
        if b is None:
            return False
        return any(SYNTAX_TY in (ty or "") for (_p, ty) in b["params"])

    def inline(self, path, argvals, out, line, args):
        if len(self.stack) >= MAX_DEPTH or sum(1 for fr in self.stack if fr.path == path) >= 2:
            raise Unsupported("recursion through %s" % path)
        b = self.c.hir[path]
        env = {}
        for (pat, _ty), v in zip(b["params"], argvals):
            self.bind(pat, v, env)
        if self.stack:
            top = self.stack[-1]
            top.line, top.args = line, args
        self.stack.append(Frame(path))
        try:
            v = self.ev(b["body"], env, out)
            if self.pending in ("ret", "div"):
                self.pending = None if self.pending == "ret" else self.pending
            return v
        finally:
            self.stack.pop()

    def inline_closure(self, clo, argvals, out, line, args):
        node, cenv = clo
        env = dict(cenv)
        for pat, v in zip(node[2], argvals):
            self.bind(pat, v, env)
        if self.stack:
            top = self.stack[-1]
            top.line, top.args = line, args
        v = self.ev(node[3], env, out)
        if self.pending == "ret":
            self.pending = None
        return v

    def do_call(self, e, env, out):
        if e[0] == "mcall":
            line, path, name, recv, args = e[1], e[2], e[3], e[4], e[5]
            rv = self.ev(recv, env, out)
            avs = [self.ev(a, env, out) for a in args]
            allv = [rv] + avs
            raw_args = args
        else:
            line, callee, args = e[1], e[2], e[3]
            path = def_path(callee) if is_node(callee) and callee[0] == "def" else None
            name = last(path) if path else None
            avs = [self.ev(a, env, out) for a in args]
            allv = avs
            raw_args = args
            if path is None:
                cv = self.ev(callee, env, out)
                if cv is not None and cv.closure is not None:
                    return self.inline_closure(cv.closure, avs, out, line, raw_args)
                return join(*allv)
        if path and any(path.startswith(p) for p in PANICS):
            self.pending = "div"
            return AVal()
        if path and path in self.c.hir and self.takes_syntax(path):
            return self.inline(path, allv, out, line, raw_args)
        if name == "write_fmt" and path and "Write" in path:
            if self.stack:
                self.stack[-1].line, self.stack[-1].args = line, raw_args
            self.line_event(out, avs[0] if avs else None)
            return AVal()
        if name == "write_all" and path and "Write" in path:
            if not (avs and isinstance(avs[0].lit, str) and not avs[0].lit.strip()):
                self.event(out, "var", what="write_all of non-blank data")
            return AVal()
        if path and path.endswith("fmt::Arguments::<'a>::from_str") and avs:
            s = avs[0].lit if isinstance(avs[0].lit, str) else None
            if s is not None:
                return AVal(None, [s], fmt=([("lit", s)] if s else [], []))
        # pure call: the result derives from its inputs
        live = [v for v in allv if v is not None]
        if len(live) == 1:
            return derive1(live[0])
        return join(*allv)

    # ------------------------------------------------------------------ format_args!
    def ev_format_args(self, e, env, out):
        inner = e[2]
        tmpl = None
        argexprs = []
        for n in hirq.walk(inner):
            if n[0] == "lit" and n[1] == "other" and isinstance(n[2], str) and n[2].startswith("ByteStr") \
                    and tmpl is None:
                tmpl = parse_bytestr(n[2])
            if n[0] == "call" and def_path(n[2]) and def_path(n[2]).endswith("Arguments::<'a>::from_str") \
                    and tmpl is None:
                a = strip(n[3][0]) if n[3] else None
                if is_node(a) and a[0] == "lit" and a[1] == "str":
                    tmpl = [("lit", a[2])] if a[2] else []
        body = hirq.unmacro(inner)
        if is_node(body) and body[0] == "block":
            for st in body[1]:
                if is_node(st) and st[0] == "let":
                    init = hirq.unmacro(st[2])
                    if is_node(init) and init[0] == "tup":
                        argexprs = list(init[1])
                        break
        if tmpl is None:
            return join(*[self.ev(a, env, out) for a in argexprs])
        avs = [self.ev(a, env, out) for a in argexprs]
        srcs = list(join(*avs).srcs)
        return AVal(None, srcs, fmt=(tmpl, avs), name=avs[0].name if len(avs) == 1 else None)

    # ------------------------------------------------------------------ statements with early exits
    def exec_seq(self, stmts, env, out):
        """stmts in order; an early return/continue/break under a condition turns the rest of the sequence into
        the continuation of the arms that fall through"""
        val = None
        for i, st in enumerate(stmts):
            n0 = len(out)
            val = self.ev(st, env, out)
            if self.pending is not None:
                return val
            if len(out) > n0 and out[-1]["k"] == "branch" and any(a["st"] != "fall" for a in out[-1]["arms"]):
                br = out[-1]
                falling = [a for a in br["arms"] if a["st"] == "fall"]
                if not falling:
                    self.pending = br["arms"][0]["st"]
                    return val
                rest = []
                val = self.exec_seq(stmts[i + 1:], dict(env), rest)
                st_rest = self.pending or "fall"
                self.pending = None
                for a in falling:
                    a["evs"] = a["evs"] + rest
                    a["st"] = st_rest
                out[-1:] = self.simplify_branch(br)
                if all(a["st"] != "fall" for a in br["arms"]):
                    self.pending = br["arms"][0]["st"]
                return val
        return val

    def simplify_branch(self, br):
        """a branch all of whose live arms emit the same thing is that thing"""
        live = [a for a in br["arms"] if a["st"] != "div"]
        if not live:
            return []
        if all(a["st"] == "fall" for a in live) or all(a["st"] == live[0]["st"] for a in live):
            sh = [shape(a["evs"]) for a in live]
            if all(s == sh[0] for s in sh):
                merged = merge_events([a["evs"] for a in live])
                if all(a["st"] == "fall" for a in live):
                    return merged
                if not merged:
                    br["arms"] = live
                    return [br] if any(a["st"] != "fall" for a in live) else []
        if all(not a["evs"] for a in br["arms"]) and all(a["st"] in ("fall", "div") for a in br["arms"]):
            return []
        return [br]

    def arm(self, label, body, env, out_arms, pre=None):
        evs = []
        env2 = dict(env)
        if pre:
            pre(env2)
        v = self.ev(body, env2, evs) if body is not None else None
        st = self.pending or "fall"
        self.pending = None
        out_arms.append({"label": label, "evs": evs, "st": st, "val": v if st == "fall" else None})

    # ------------------------------------------------------------------ expressions
    def ev(self, e, env, out):
        if not is_node(e):
            return AVal()
        k = e[0]
        if k == "lit":
            if e[1] in ("int", "str", "bool"):
                return AVal(e[2], [e[2]] if e[1] == "str" else [])
            if e[1] == "other" and isinstance(e[2], str) and e[2].startswith("ByteStr"):
                m = re.search(r"\[([0-9,\s]*)\]", e[2])
                try:
                    s = bytes(int(x) for x in m.group(1).replace(" ", "").split(",") if x).decode()
                except (ValueError, AttributeError, UnicodeDecodeError):
                    s = None
                return AVal(s, [])
            return AVal()
        if k == "local":
            v = env.get(e[1])
            return v if v is not None else AVal(None, [json.dumps(e)])
        if k == "def":
            return AVal(None, [])
        if k in ("call", "mcall"):
            return self.do_call(e, env, out)
        if k == "macro":
            nm = e[1]
            if nm.endswith("format_args!"):
                return self.ev_format_args(e, env, out)
            if nm == "desugar:ForLoop":
                return self.ev_for(e, env, out)
            return self.ev(e[2], env, out)
        if k == "block":
            env2 = dict(env)
            seq = list(e[1]) + ([e[2]] if e[2] is not None else [])
            v = self.exec_seq(seq, env2, out)
            return v if e[2] is not None and v is not None else AVal()
        if k == "let":
            v = self.ev(e[2], env, out) if e[2] is not None else AVal()
            if self.pending is None:
                self.bind(e[1], v, env)
            if e[3] is not None:
                pass        # let-else: the else block diverges; it cannot emit and continue
            return AVal()
        if k == "letx":
            v = self.ev(e[2], env, out)
            self.bind(e[1], AVal(None, v.srcs), env)
            return AVal(None, v.srcs)
        if k == "if":
            cv = self.ev(e[1], env, out)
            if self.pending is not None:
                return AVal()
            arms = []
            self.arm("then", e[2], env, arms)
            self.arm("else", e[3], env, arms)
            br = {"k": "branch", "src": "if", "arms": arms, "fn": (self.attribution().path if self.stack else None),
                  "cond": hirq.render(e[1])}
            out.extend(self.simplify_branch(br))
            return join_same(*[a["val"] for a in arms if a["st"] == "fall"])
        if k == "match":
            sv = self.ev(e[1], env, out)
            if self.pending is not None:
                return AVal()
            arms = []
            for (pat, guard, body) in hirq.match_arms(e):
                names = hirq.pat_paths(pat)
                label = last(names[0]) if names else ("_" if hirq.pat_is_wild(pat) else "?")

                def pre(env2, pat=pat):
                    self.bind(pat, AVal(None, sv.srcs), env2)
                self.arm(label, body, env, arms, pre)
            br = {"k": "branch", "src": "match", "arms": arms,
                  "fn": (self.attribution().path if self.stack else None), "cond": hirq.render(e[1])}
            out.extend(self.simplify_branch(br))
            return join_same(*[a["val"] for a in arms if a["st"] == "fall"])
        if k == "loop":
            body = []
            self.ev(e[2], dict(env), body)
            self.pending = None
            body = [x for x in body if not (x["k"] == "branch" and all(not a["evs"] for a in x["arms"]))]
            if body:
                self.event(out, "loop", body=body, iter=None, pat=None)
            return AVal()
        if k == "ret":
            if e[1] is not None:
                self.ev(e[1], env, out)
            self.pending = "ret"
            return AVal()
        if k == "break":
            self.pending = "brk"
            return AVal()
        if k == "continue":
            self.pending = "cont"
            return AVal()
        if k == "closure":
            for n in hirq.walk(e[3]):
                if n[0] == "mcall" and SYNTAX_TY in (n[6] if len(n) > 6 and n[6] else ""):
                    return AVal(None, [], closure=(e, dict(env)))
            return AVal()
        if k == "bin":
            a = self.ev(e[2], env, out)
            b = self.ev(e[3], env, out)
            if isinstance(a.lit, int) and isinstance(b.lit, int) and not isinstance(a.lit, bool):
                try:
                    v = {"Shl": lambda: a.lit << b.lit, "Add": lambda: a.lit + b.lit, "Mul": lambda: a.lit * b.lit,
                         "Sub": lambda: a.lit - b.lit}.get(e[1], lambda: None)()
                except (ValueError, OverflowError):
                    v = None
                if v is not None:
                    return AVal(v)
            return join(a, b)
        if k in ("cast", "field"):
            v = self.ev(e[1], env, out)
            return v if k == "cast" else AVal(None, v.srcs)
        if k == "un":
            v = self.ev(e[2], env, out)
            return v if e[1] == "Deref" else AVal(None, v.srcs)
        if k == "addr":
            return self.ev(e[2], env, out)
        if k in ("tup", "array"):
            return join(*[self.ev(x, env, out) for x in e[1]])
        if k == "index":
            return join(self.ev(e[1], env, out), self.ev(e[2], env, out))
        if k in ("assign", "assignop"):
            l, rr = (e[1], e[2]) if k == "assign" else (e[2], e[3])
            v = self.ev(rr, env, out)
            nm = hirq.local_name(l)
            if nm is not None and is_node(l) and l[0] == "local":
                env[nm] = AVal(None, v.srcs)
            return AVal()
        if k == "struct":
            vs = [self.ev(x, env, out) for _f, x in e[2]]
            if e[3] is not None:
                vs.append(self.ev(e[3], env, out))
            return join(*vs)
        # unknown node: visit children in order so that no emission is lost
        vs = []
        for ch in e[1:]:
            if is_node(ch):
                vs.append(self.ev(ch, env, out))
            elif isinstance(ch, list):
                for x in ch:
                    if is_node(x):
                        vs.append(self.ev(x, env, out))
        return join(*vs)

    def ev_for(self, e, env, out):
        m = hirq.unmacro(e[2])
        try:
            into = m[1]
            it_expr = into[3][0]
            loop = m[2][0][2]
            inner = loop[2][1][0]
            some = [a for a in inner[2] if hirq.pat_paths(a[0]) and last(hirq.pat_paths(a[0])[0]) == "Some"][0]
            pat = some[0][2][0][1]
            body = some[2]
        except (IndexError, TypeError):
            raise Unsupported("for-loop desugaring not recognised")
        iv = self.ev(it_expr, env, out)
        env2 = dict(env)
        self.bind(pat, AVal(None, iv.srcs), env2)
        evs = []
        self.ev(body, env2, evs)
        self.pending = None
        if evs:
            self.event(out, "loop", body=evs, iter=it_expr, pat=pat)
            if len(e) > 3 and self.stack and not self.stack[-1].is_method:
                out[-1]["line"] = e[3]
        return AVal()


# ---------------------------------------------------------------------- event shapes

def shape(evs):
    out = []
    for ev in evs:
        k = ev["k"]
        if k == "data":
            out.append(("data", ev["w"]))
        elif k == "label":
            out.append(("label", ev["name"] is not None and ev["name"] or None))
        elif k == "global":
            out.append(("global", ev["name"]))
        elif k == "align":
            out.append(("align", ev["n"]))
        elif k == "section":
            out.append(("section",))
        elif k == "var":
            out.append(("var",))
        elif k == "loop":
            out.append(("loop", tuple(shape(ev["body"]))))
        elif k == "branch":
            out.append(("branch", tuple((a["st"], tuple(shape(a["evs"]))) for a in ev["arms"])))
    return out


def merge_events(lists):
    """arms with equal shapes: keep the first arm's events, remember the other arms' operands (names)"""
    first = [dict(ev) for ev in lists[0]]
    for other in lists[1:]:
        for a, b in zip(first, other):
            if a["k"] == "data":
                a.setdefault("alts", []).append(b)
            if a["k"] == "section":
                a["names"] = list(a.get("names", [])) + [n for n in b.get("names", []) if n not in a.get("names", [])]
            if a["k"] == "loop":
                a["body"] = merge_events([a["body"], b["body"]])
    return first


def find_label(evs, name):
    """(list, index) of the label event carrying `name`, searching loops and branch arms"""
    hits = []

    def rec(lst):
        for i, ev in enumerate(lst):
            if ev["k"] == "label" and ev["name"] == name:
                hits.append((lst, i))
            elif ev["k"] == "loop":
                rec(ev["body"])
            elif ev["k"] == "branch":
                for a in ev["arms"]:
                    rec(a["evs"])
    rec(evs)
    return hits


# ---------------------------------------------------------------------- names

def name_tokens(name):
    out = []
    for p in re.split(r"[^A-Za-z0-9]+", re.sub(r"([a-z0-9])([A-Z])", r"\1_\2", name or "").lower()):
        if not p:
            continue
        if len(p) > 3 and p.endswith("s") and not p.endswith("ss"):
            p = p[:-1]
        out.append(p)
    return out


def norm_name(name):
    return "_".join(name_tokens(name))


def expr_idents(e, out=None):
    """identifiers along the operand expression: locals, fields, method and function names"""
    if out is None:
        out = []
    if not is_node(e):
        return out
    k = e[0]
    if k == "local":
        out.append(e[1])
    elif k == "field":
        expr_idents(e[1], out)
        out.append(e[2])
    elif k == "mcall":
        expr_idents(e[4], out)
        out.append(e[3])
        for a in e[5]:
            expr_idents(a, out)
    elif k == "call":
        p = def_path(e[2])
        if p:
            out.append(last(p))
        for a in e[3]:
            expr_idents(a, out)
    elif k == "def":
        out.append(last(e[2]))
    elif k == "macro":
        expr_idents(e[2], out)
    elif k == "lit":
        pass
    else:
        for ch in e[1:]:
            if is_node(ch):
                expr_idents(ch, out)
            elif isinstance(ch, list):
                for x in ch:
                    if is_node(x):
                        expr_idents(x, out)
    return out


def operand_idents(ev):
    ids = []
    for a in ev.get("args") or []:
        expr_idents(a, ids)
    for alt in ev.get("alts", []):
        for a in alt.get("args") or []:
            expr_idents(a, ids)
    # generic plumbing that carries no field meaning
    return [i for i in ids if i not in ("into", "as_ref", "as_str", "clone", "to_string", "iter", "unwrap")]


def operand_is_const(ev):
    args = ev.get("args") or []
    return len(args) == 1 and hirq.lit_int(args[0]) is not None and not ev.get("alts")


def operand_text(ev):
    return ", ".join(hirq.render(a) for a in (ev.get("args") or []))


# ---------------------------------------------------------------------- reader side

def pointee(ty):
    m = re.match(r"^\*(?:const|mut)\s+(.+)$", (ty or "").strip())
    return m.group(1).strip() if m else None


def link_names(cs):
    """static path -> link symbol.  `#[link_name]` is not in the item facts: it is read from the declaring file
    (attribute immediately in front of the `static`); without the attribute the identifier is the symbol."""
    out = {}
    cache = {}
    for st in cs.items.get("statics", []):
        f = st.get("file")
        ident = last(st["path"])
        sym = ident
        if f:
            if f not in cache:
                try:
                    cache[f] = facts.read_repo(f)
                except OSError:
                    cache[f] = ""
            m = re.search(r'#\[\s*link_name\s*=\s*"([^"]+)"\s*\]\s*(?:pub(?:\([^)]*\))?\s+)?static\s+(?:mut\s+)?'
                          + re.escape(ident) + r"\b", cache[f])
            if m:
                sym = m.group(1)
        out[st["path"]] = sym
    return out


def static_of(e):
    e = strip(e)
    while is_node(e) and e[0] == "cast":
        e = strip(e[1])
    if is_node(e) and e[0] == "def" and e[1] == "static":
        return e[2]
    return None


def derive_table_readers(cs):
    """{fn path: {'base': param index, 'elem': type text or generic name, 'ptr_params': [idx]}}"""
    out = {}
    for path, b in cs.hir.items():
        pnames = [p[0][1] if is_node(p[0]) and p[0][0] == "pbind" else None for p in b["params"]]
        for call in hirq.calls(b["body"]):
            if not (call.callee and re.search(r"slice::raw::from_raw_parts(_mut)?$", call.callee)):
                continue
            a0 = strip(call.args[0]) if call.args else None
            ty = None
            if is_node(a0) and a0[0] == "cast":
                ty = a0[2]
                a0 = strip(a0[1])
            nm = hirq.local_name(a0)
            if nm is None or nm not in pnames:
                continue
            idx = pnames.index(nm)
            elem = pointee(ty) if ty else pointee(b["params"][idx][1])
            ptrs = [i for i, p in enumerate(b["params"]) if pointee(p[1]) is not None]
            out[path] = {"base": idx, "elem": elem, "ptr_params": ptrs}
    return out


def mir_generics(cs, fn_path, callee_pred):
    """{line: generic args text} of the MIR calls of `fn_path` whose callee satisfies the predicate"""
    out = {}
    m = cs.mir.get(fn_path)
    if not m:
        return out
    for b in m["blocks"]:
        t = b.get("t")
        if not t or t[0] != "call":
            continue
        f = t[1].get("f")
        fn = f[1].get("fn") if isinstance(f, list) and len(f) > 1 and isinstance(f[1], dict) else None
        if not fn or not callee_pred(fn.get("d") or ""):
            continue
        out.setdefault(t[1].get("l"), []).append(fn.get("g"))
    return out


def split_generics(g):
    if not g:
        return []
    s = g.strip()
    if s.startswith("[") and s.endswith("]"):
        s = s[1:-1]
    parts, depth, cur = [], 0, ""
    for ch in s:
        if ch in "<([":
            depth += 1
        elif ch in ">)]":
            depth -= 1
        if ch == "," and depth == 0:
            parts.append(cur.strip())
            cur = ""
        else:
            cur += ch
    if cur.strip():
        parts.append(cur.strip())
    return parts


def derive_mappings(cs, problems):
    """[{'symbol', 'end_symbol'|None, 'elem', 'mode': 'table'|'descriptor', 'reader_fn', 'line'}]"""
    readers = derive_table_readers(cs)
    links = link_names(cs)
    maps = []
    for path, b in sorted(cs.hir.items()):
        gen_cache = {}
        for call in hirq.calls(b["body"]):
            if call.callee in readers and not call.is_method:
                rd = readers[call.callee]
                if rd["base"] >= len(call.args):
                    continue
                st = static_of(call.args[rd["base"]])
                if st is None:
                    if path not in readers:
                        problems.append(("%s:base-not-a-symbol" % path,
                                         "call of table reader %s whose base pointer is not addr_of!(<extern static>)"
                                         % call.callee, b["file"], call.line))
                    continue
                others = [i for i in rd["ptr_params"] if i != rd["base"] and i < len(call.args)]
                end = static_of(call.args[others[0]]) if len(others) == 1 else None
                elem = rd["elem"]
                if elem is not None and re.match(r"^[A-Z]\w*$", elem) and elem not in PRIM_SIZE:
                    key = call.callee
                    if key not in gen_cache:
                        gen_cache[key] = mir_generics(cs, path, lambda d, key=key: d == key)
                    gs = gen_cache[key].get(call.line, [])
                    if len(gs) != 1 or not split_generics(gs[0]):
                        problems.append(("%s:%s:element-type" % (path, links.get(st, st)),
                                         "cannot tell which element type %s is instantiated with here (%d MIR calls "
                                         "on the line)" % (call.callee, len(gs)), b["file"], call.line))
                        continue
                    elem = split_generics(gs[0])[-1]
                maps.append({"symbol": links.get(st, last(st)), "end_symbol": links.get(end, None) if end else None,
                             "elem": elem, "mode": "table", "reader_fn": path, "line": call.line,
                             "file": b["file"], "via": call.callee})
            elif call.is_method and call.name == "cast" and call.callee and "ptr::" in call.callee:
                st = static_of(call.recv)
                if st is None:
                    continue
                gs = mir_generics(cs, path, lambda d, key=call.callee: d == key).get(call.line, [])
                if len(gs) != 1 or not split_generics(gs[0]):
                    problems.append(("%s:%s:cast-type" % (path, links.get(st, st)),
                                     "cannot tell the target type of this pointer cast", b["file"], call.line))
                    continue
                maps.append({"symbol": links.get(st, last(st)), "end_symbol": None, "elem": split_generics(gs[0])[-1],
                             "mode": "descriptor", "reader_fn": path, "line": call.line, "file": b["file"],
                             "via": "cast"})
    return maps, readers


# ---------------------------------------------------------------------- layouts

def find_adt(F, path):
    crate = path.split("::", 1)[0]
    try:
        c = F.crate(crate)
    except facts.AnalysisError:
        return None
    for a in c.items["adts"]:
        if a["path"] == path:
            return a
    return None


def struct_fields(adt):
    if adt is None or adt.get("kind") != "struct" or not adt.get("variants"):
        return None
    fs = [f for f in adt["variants"][0]["fields"] if f.get("offset") is not None]
    if len(fs) != len(adt["variants"][0]["fields"]):
        return None
    return sorted(fs, key=lambda f: f["offset"])


# ---------------------------------------------------------------------- the rule

def _byte_events(evs):
    return [ev for ev in evs if ev["k"] in ("data", "var", "loop", "branch", "align")]


def _entry_items(body):
    """per-entry events -> (items, problems); items: ('data', ev) | ('align', n) | ('tail', [data evs])"""
    items, probs = [], []
    for ev in body:
        k = ev["k"]
        if k in ("label", "global"):
            continue
        if k == "data":
            items.append(("data", ev))
        elif k == "align":
            items.append(("align", ev["n"]))
        elif k == "loop":
            inner = [x for x in ev["body"] if x["k"] not in ("label", "global")]
            if inner and all(x["k"] == "data" for x in inner):
                items.append(("tail", inner))
            else:
                probs.append("a nested loop that is not a plain sequence of data directives")
        elif k == "branch":
            desc = "; ".join("%s -> [%s]" % (a["label"], ", ".join(
                str(x["w"]) if x["k"] == "data" else x["k"] for x in a["evs"])) for a in ev["arms"])
            probs.append("BRANCH:the arms of `%s %s` emit different directives (%s)" % (ev["src"], ev["cond"], desc))
            # keep going with the first live arm so that the rest of the record is still compared
            live = [a for a in ev["arms"] if a["st"] == "fall"]
            if live:
                sub, p2 = _entry_items(live[0]["evs"])
                items += sub
                probs += p2
        elif k == "var":
            probs.append("variable-length output inside an entry (%s)" % ev.get("what"))
        elif k == "section":
            probs.append("a section switch inside an entry")
    return items, probs


def run_metadata(chk, F, rid="C10.R3"):
    r = chk.rule(rid, "every AOT metadata section is written by assembly.rs with exactly the field widths, order and "
                      "entry size of the #[repr(C)] type the start-up reader maps its start symbol onto")
    try:
        c = F.crate("dora_compiler")
        cs = F.crate(READER_CRATE)
    except facts.AnalysisError as e:
        r.anchor("crate facts (%s)" % e, None)
        return
    if not r.anchor(ROOT, c.hir.get(ROOT)):
        return
    if not r.anchor("methods of " + SYNTAX_TY, any(p.startswith(SYNTAX_TY + "::") for p in c.hir)):
        return

    # ---- writer events
    asm = Asm(c)
    root = c.hir[ROOT]
    events = []
    try:
        env = {}
        for (pat, _ty) in root["params"]:
            asm.bind(pat, AVal(None, []), env)
        asm.stack.append(Frame(ROOT))
        asm.ev(root["body"], env, events)
    except Unsupported as e:
        _analysis(r, "%s:writer-not-summarisable" % ROOT, "the assembly writer could not be summarised: %s" % e,
                    "%s:%s" % (root.get("file"), root.get("line")))
        return
    except RecursionError:
        _analysis(r, "%s:writer-not-summarisable" % ROOT, "recursion limit while summarising the writer")
        return
    n_labels = len([1 for _l in _all_labels(events)])
    r.anchor("line primitive (fmt::Arguments reaching io::Write::write_fmt) reached from the writer", n_labels > 0)

    # ---- reader mappings
    problems = []
    maps, readers = derive_mappings(cs, problems)
    r.anchor("a table reader (slice::from_raw_parts over a pointer parameter) in " + READER_CRATE, readers)
    for key, msg, f, line in problems:
        _analysis(r, key, msg, "%s:%s" % (f, line))
    by_symbol = {}
    for m in maps:
        by_symbol.setdefault(m["symbol"], []).append(m)

    n_struct = n_prim = n_bytes = n_desc = 0
    links = []
    for sym in sorted(by_symbol):
        ms = by_symbol[sym]
        # several reads of one symbol (e.g. byte length + descriptor base) are separate instances
        for m in ms:
            kind = _check_symbol(r, F, events, sym, m, links)
            if kind == "struct":
                n_struct += 1
            elif kind == "prim":
                n_prim += 1
            elif kind == "bytes":
                n_bytes += 1
            elif kind == "descriptor":
                n_desc += 1
    n_linked = 0
    done = set()
    for lk in links:
        if (lk["symbol"], lk["elem"]) in done:
            continue
        done.add((lk["symbol"], lk["elem"]))
        if _check_symbol(r, F, events, lk["symbol"], lk) is not None:
            n_linked += 1
            maps.append(lk)
    # symbols the writer exports in data sections that no typed reader maps: listed, not judged
    mapped = set(by_symbol) | {lk["symbol"] for lk in links}
    unread = sorted({lst[i]["name"] for (lst, i) in _all_labels(events)
                     if lst[i]["name"] and lst[i]["name"] not in mapped
                     and not any(m["end_symbol"] == lst[i]["name"] for m in maps)
                     and _next_is_data_loop(lst, i)})
    for nm in unread:
        r.observe("symbol %s starts emitted data that no typed read in %s maps onto a type" % (nm, READER_CRATE))

    # ---- the compiler-side mirror of the shape descriptor
    desc = [m for m in maps if m["mode"] == "descriptor"]
    for m in desc:
        a = find_adt(F, m["elem"])
        b = find_adt(F, SHAPE_MIRROR)
        if not r.anchor(SHAPE_MIRROR, b):
            continue
        fa, fb = struct_fields(a), struct_fields(b)
        key = "%s:mirror-of-%s" % (SHAPE_MIRROR, last(m["elem"]))
        r.instance(key, nontrivial=True, sample={"runtime": m["elem"], "compiler": SHAPE_MIRROR,
                                                 "size": [a and a.get("size"), b.get("size")]})
        if fa is None or fb is None:
            _analysis(r, key, "no layout facts for one of the two descriptor types")
            continue
        la = [(f["name"], f["offset"], f["size"]) for f in fa]
        lb = [(f["name"], f["offset"], f["size"]) for f in fb]
        if la != lb or a.get("size") != b.get("size") or not (a.get("repr_c") and b.get("repr_c")):
            diff = [x for x in la if x not in lb] + [x for x in lb if x not in la]
            r.violation(key, "%s and %s must have the same #[repr(C)] layout (the vtable starts at size_of of either): "
                             "differing (name, offset, size) %s; sizes %s/%s" % (m["elem"], SHAPE_MIRROR, diff[:4],
                                                                                a.get("size"), b.get("size")),
                        "%s:%s" % (b.get("file"), b.get("line")))

    r.floor("metadata sections mapped onto a #[repr(C)] entry struct", n_struct, 8)
    r.floor("typed metadata tables (struct or scalar elements)", n_struct + n_prim, 11)
    r.floor("descriptor symbols (shape space)", n_desc, 1)
    r.floor("side tables reached through pointer fields of a descriptor", n_linked, 2)
    r.observe("derived symbol -> type map: " + ", ".join(
        "%s=%s" % (m["symbol"].replace("dora_aot_", ""), last(m["elem"] or "?")) for m in maps))


def _analysis(r, key, msg, where=None):
    """fail closed in the same key space as Rule.anchor/floor"""
    full = "ANALYSIS:%s:%s" % (r.name, key)
    if not any(v[0] == full for v in r.violations):
        r.violations.append((full, msg, where))


def _all_labels(events):
    out = []

    def rec(lst):
        for i, ev in enumerate(lst):
            if ev["k"] == "label" and ev["name"]:
                out.append((lst, i))
            elif ev["k"] == "loop":
                rec(ev["body"])
            elif ev["k"] == "branch":
                for a in ev["arms"]:
                    rec(a["evs"])
    rec(events)
    return out


def _next_is_data_loop(lst, i):
    for ev in lst[i + 1:]:
        if ev["k"] in ("global",):
            continue
        if ev["k"] == "label":
            if ev["name"]:
                return False
            continue
        return ev["k"] == "loop" and any(x["k"] == "data" for x in ev["body"])
    return False


def _region(lst, i):
    """events after label i (aliases directly behind it skipped) up to the next named label"""
    j = i + 1
    while j < len(lst) and lst[j]["k"] in ("global", "label") and (lst[j]["k"] == "global" or lst[j]["name"]):
        # `global X` + `label X` directly behind the start label: another name for the same address
        if lst[j]["k"] == "label" and not _alias_ok(lst, i, j):
            break
        j += 1
    body = []
    end = None
    k = j
    while k < len(lst):
        ev = lst[k]
        if ev["k"] == "label" and ev["name"]:
            end = ev["name"]
            break
        body.append(ev)
        k += 1
    return body, end


def _alias_ok(lst, i, j):
    return all(x["k"] in ("global", "label") for x in lst[i + 1:j + 1])


def _start_alignment(lst, i):
    """alignment established for the address of label i: the closest align directive in front of it with only
    labels/globals in between (a section switch resets it)"""
    k = i - 1
    while k >= 0:
        ev = lst[k]
        if ev["k"] in ("global", "label"):
            k -= 1
            continue
        if ev["k"] == "align":
            return ev["n"]
        return 0
    return 0


def _check_symbol(r, F, events, sym, m, links=None):
    where_r = "%s:%s" % (m["file"], m["line"])
    hits = find_label(events, sym)
    base = "%s:%s" % (m["reader_fn"], sym)
    if len(hits) != 1:
        r.instance(base, nontrivial=False)
        _analysis(r, "%s:writer-label" % base,
                    "%s reads symbol %s as %s but the assembly writer defines that label %d times on the paths from %s"
                    % (m["reader_fn"], sym, m["elem"], len(hits), ROOT), where_r)
        return None
    lst, i = hits[0]
    body, end = _region(lst, i)
    wfn = lst[i].get("fn") or ROOT
    key0 = "%s:%s" % (wfn, sym)
    elem = m["elem"]
    adt = find_adt(F, elem) if elem and "::" in elem else None

    # end symbol
    if m["end_symbol"] is not None:
        if end != m["end_symbol"]:
            r.violation(key0 + ":end-symbol", "the reader takes the table length from %s but the next label the writer "
                        "places after %s is %s" % (m["end_symbol"], sym, end), where_r)

    bytes_evs = _byte_events(body)
    if any(ev["k"] == "section" for ev in body):
        _analysis(r, "%s:section-switch" % key0, "a section switch lies between %s and the next label" % sym,
                    where_r)
        return None

    # raw bytes
    if m["mode"] == "table" and elem in PRIM_SIZE and PRIM_SIZE[elem] == 1:
        r.instance(key0, nontrivial=True, sample={"symbol": sym, "read_as": "[%s]" % elem, "via": m["via"]})
        return "bytes"

    if len(bytes_evs) != 1 or bytes_evs[0]["k"] != "loop":
        r.instance(key0, nontrivial=False)
        _analysis(r, "%s:not-an-entry-loop" % key0,
                    "the data between %s and %s is not one loop of entries (%s), so it cannot be compared with %s"
                    % (sym, end, ", ".join(ev["k"] for ev in bytes_evs) or "nothing", elem), where_r)
        return None
    loop = bytes_evs[0]
    where_w = "%s:%s" % ((F.crate("dora_compiler").hir.get(loop.get("fn") or "", {}) or {}).get("file", "assembly.rs"),
                         loop.get("line"))
    items, probs = _entry_items(loop["body"])
    for p in probs:
        if p.startswith("BRANCH:"):
            r.violation(key0 + ":arms-differ", p[7:], where_w)
        else:
            _analysis(r, "%s:entry-shape" % key0, "entry of %s: %s" % (sym, p), where_w)
    if any(not p.startswith("BRANCH:") for p in probs):
        r.instance(key0, nontrivial=False)
        return None

    fixed = []
    tails = []
    inner_align = [n for (k, n) in items if k == "align"]
    for (k, x) in items:
        if k == "data":
            if tails:
                r.violation(key0 + ":data-after-tail", "a fixed field follows the variable-length tail of the entry",
                            where_w)
            fixed.append(x)
        elif k == "tail":
            tails.append(x)

    # expected layout
    if elem in PRIM_SIZE:
        exp = [{"name": "<%s>" % elem, "offset": 0, "size": PRIM_SIZE[elem]}]
        size, align, kind = PRIM_SIZE[elem], PRIM_SIZE[elem], "prim"
    else:
        fs = struct_fields(adt)
        if fs is None:
            r.instance(key0, nontrivial=False)
            _analysis(r, "%s:no-layout" % key0, "no struct layout facts for %s (read from %s)" % (elem, sym),
                        where_r)
            return None
        if not adt.get("repr_c"):
            r.violation("%s:not-repr-c" % elem, "%s is mapped onto assembler-written bytes at %s but is not "
                        "#[repr(C)]: its field order is unspecified" % (elem, sym),
                        "%s:%s" % (adt.get("file"), adt.get("line")))
        exp = fs
        size, align = adt["size"], adt["align"]
        kind = "struct" if m["mode"] == "table" else "descriptor"

    r.instance(key0, nontrivial=True, sample={"symbol": sym, "type": elem, "writer_widths": [x["w"] for x in fixed],
                                              "reader": [(f["name"], f["size"]) for f in exp][:6]})

    if m["mode"] == "table" and tails:
        r.violation(key0 + ":variable-entry", "entries of %s have a variable-length tail but the reader takes them as "
                    "a fixed-stride slice of %s" % (sym, elem), where_w)

    # start alignment
    al = _start_alignment(lst, i)
    if al is None:
        r.observe("%s: start alignment directive could not be evaluated" % sym)
    elif al < align:
        r.violation(key0 + ":start-alignment", "%s is read as %s (align %d) but the writer establishes only %d-byte "
                    "alignment in front of the label" % (sym, elem, align, al), where_w)
    for n in inner_align:
        tail_w = [x["w"] for t in tails for x in t]
        if n is None or size % n or any(w % n for w in tail_w):
            r.violation(key0 + ":inner-alignment", "an alignment directive inside the entry loop of %s (%s bytes) can "
                        "insert padding the reader does not expect (entry %d bytes, tail widths %s)"
                        % (sym, n, size, tail_w), where_w)

    # field by field
    off = 0
    ok = True
    for idx in range(max(len(fixed), len(exp))):
        w = fixed[idx] if idx < len(fixed) else None
        f = exp[idx] if idx < len(exp) else None
        fk = "%s:field%d" % (key0, idx)
        if w is None:
            r.violation(key0 + ":field-count", "%s has %d fields (%d bytes) but the writer emits only %d values per "
                        "entry (%d bytes): first unwritten field `%s`" % (elem, len(exp), size, len(fixed), off,
                                                                         f["name"]), where_w)
            ok = False
            break
        if f is None:
            r.violation(key0 + ":field-count", "the writer emits %d values per entry but %s has only %d fields "
                        "(%d bytes): extra value `%s`" % (len(fixed), elem, len(exp), size, operand_text(w)),
                        "%s:%s" % (where_w.split(":")[0], w.get("line")))
            ok = False
            break
        r.instance(fk, nontrivial=True)
        if w["w"] != f["size"] or off != f["offset"]:
            r.violation(fk + ":width", "entry of %s: value %d `%s` is written as %d bytes at offset %d, but %s.%s is "
                        "%d bytes at offset %d" % (sym, idx, operand_text(w), w["w"], off, last(elem), f["name"],
                                                   f["size"], f["offset"]),
                        "%s:%s" % (where_w.split(":")[0], w.get("line")))
            ok = False
            break
        off += w["w"]
    if ok and off != size:
        r.violation(key0 + ":entry-size", "the writer emits %d bytes per entry of %s but size_of::<%s>() is %d "
                    "(trailing padding has to be written explicitly)" % (off, sym, last(elem), size), where_w)
    if ok and elem not in PRIM_SIZE:
        _check_names(r, key0, sym, elem, fixed, exp, where_w)
        if links is not None:
            # a pointer-typed field filled with the address of another exported label: that label's data is read
            # through the field's pointee type
            for w, f in zip(fixed, exp):
                pt = pointee(f.get("ty"))
                if pt is None:
                    continue
                for ev in [w] + list(w.get("alts", [])):
                    for a in ev.get("args") or []:
                        for n in hirq.walk(a):
                            if n[0] == "lit" and n[1] == "str" and len(find_label(events, n[2])) == 1:
                                links.append({"symbol": n[2], "end_symbol": None, "elem": pt, "mode": "table",
                                              "reader_fn": "%s.%s" % (elem, f["name"]), "line": adt.get("line"),
                                              "file": adt.get("file"), "via": "pointer field"})
    return kind


def _check_names(r, key0, sym, elem, fixed, exp, where_w):
    rnames = [norm_name(f["name"]) for f in exp]
    rtoks = [set(name_tokens(f["name"])) for f in exp]
    wids = [operand_idents(w) for w in fixed]
    wnames = [[norm_name(i) for i in ids] for ids in wids]
    wtoks = [set(t for i in ids for t in name_tokens(i)) for ids in wids]
    f0 = where_w.split(":")[0]
    for i, w in enumerate(fixed):
        if operand_is_const(w):
            nm = exp[i]["name"]
            if not (nm.startswith("_") or "reserved" in nm or "pad" in nm):
                r.observe("%s: the writer stores the constant %s into %s.%s" % (sym, operand_text(w), last(elem), nm))
            continue
        if rnames[i] in wnames[i]:
            continue
        other = [j for j in range(len(exp)) if j != i and rnames[j] in wnames[i]]
        if other:
            j = other[0]
            r.violation("%s:field%d:permuted" % (key0, i), "entry of %s: value %d is `%s`, which is named like %s.%s "
                        "(field %d), but at this position the reader finds %s.%s" % (
                            sym, i, operand_text(w), last(elem), exp[j]["name"], j, last(elem), exp[i]["name"]),
                        "%s:%s" % (f0, w.get("line")))
    # a token that occurs in exactly one writer operand and in exactly one reader field names the same slot
    alltoks = set().union(*wtoks) if wtoks else set()
    for t in sorted(alltoks):
        if len(t) < 3:
            continue
        wi = [i for i in range(len(fixed)) if t in wtoks[i]]
        ri = [j for j in range(len(exp)) if t in rtoks[j]]
        if len(wi) == 1 and len(ri) == 1 and wi[0] != ri[0]:
            i, j = wi[0], ri[0]
            if rnames[i] in wnames[i]:
                continue
            r.violation("%s:field%d:permuted" % (key0, i), "entry of %s: value %d `%s` is the only operand mentioning "
                        "`%s` and %s.%s (field %d) the only field doing so, but the value lands in %s.%s" % (
                            sym, i, operand_text(fixed[i]), t, last(elem), exp[j]["name"], j, last(elem),
                            exp[i]["name"]), "%s:%s" % (f0, fixed[i].get("line")))

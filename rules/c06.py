"""C06 — the front end never crashes, whatever text it is given.

Decided clauses (structural sources of panics in the parser and its AST consumer):
  R1  every constant that can reach Parser::expect(kind) is a Some-arm of token_name
  R2  the error node kind a production closes is castable by the AST union its
      sibling (success) kinds belong to, and every ERROR_* raw kind of a union is
      produced together with one of that union's success kinds
  R4  cursor typestate (see c06_cursor.py): asserts reached only with the asserted
      token, cursor loops make progress, comma-list callbacks advance when true
"""
import hirq
from hirq import calls, def_path, last, local_name

PARSER = "dora_parser::parser::Parser::"


def _parser_fns(c):
    out = {}
    for p, b in c.hir.items():
        if p.startswith("dora_parser::parser::"):
            out[p] = b
    return out


def _param_index(b, name):
    for i, (pat, _ty) in enumerate(b["params"]):
        if hirq.is_node(pat) and pat[0] == "pbind" and pat[1] == name:
            return i
    return None


def kind_const(e):
    d = def_path(e)
    if d and "::TokenKind::" in d:
        return last(d)
    return None


def const_args(fns, fpath, argidx, depth=0, seen=None):
    """All TokenKind constants that can reach parameter #argidx (0 = self) of fpath,
    following forwarding parameters through callers.  Returns (consts:set[(kind, caller)], unknown:list)."""
    seen = seen or set()
    if (fpath, argidx) in seen or depth > 6:
        return set(), []
    seen.add((fpath, argidx))
    consts, unknown = set(), []
    for p, b in fns.items():
        for cs in calls(b["body"]):
            if cs.callee != fpath:
                continue
            allargs = cs.all_args()
            if argidx >= len(allargs):
                continue
            a = allargs[argidx]
            k = kind_const(a)
            if k:
                consts.add((k, p))
                continue
            ln = local_name(a)
            if ln is not None:
                pi = _param_index(b, ln)
                if pi is not None:
                    c2, u2 = const_args(fns, p, pi, depth + 1, seen)
                    consts |= c2
                    unknown += u2
                    continue
            unknown.append((p, cs.line, hirq.render(a)))
    return consts, unknown


def run_r1(chk, c):
    r = chk.rule("C06.R1", "every TokenKind constant reaching Parser::expect is a Some-arm of token_name "
                           "(expect() unwraps token_name(kind) on its failure path)")
    fns = _parser_fns(c)
    tn = c.hir_fn("parser::token_name")
    ex = c.hir_fn("parser::Parser::expect")
    if not (r.anchor("dora_parser::parser::token_name", tn) and r.anchor(PARSER + "expect", ex)):
        return
    # belief check: expect really consults token_name with its own parameter and unwraps it
    uses = [cs for cs in calls(ex["body"]) if cs.callee_is("parser::token_name")]
    unwraps = [cs for cs in calls(ex["body"]) if cs.callee and ("Option::<T>::expect" in cs.callee
                                                                or "Option::<T>::unwrap" in cs.callee)]
    if not uses or not unwraps:
        r.observe("Parser::expect no longer unwraps token_name(kind); R1 has nothing to demand")
        r.instance("expect-no-unwrap", nontrivial=False)
        return
    # domain of token_name
    dom = set()
    body = hirq.strip(tn["body"])
    m = None
    for n in hirq.walk(tn["body"]):
        if n[0] == "match":
            m = n
            break
    if not r.anchor("token_name:match", m):
        return
    for (pat, guard, arm) in hirq.match_arms(m):
        some = any(cs.callee and cs.callee.endswith("Option::Some") for cs in calls(arm))
        if some and guard is None:
            for d in hirq.pat_paths(pat):
                dom.add(last(d))
    r.floor("token_name Some-arms", len(dom), 15)
    consts, unknown = const_args(fns, PARSER + "expect", 1)
    sites = sum(1 for p, b in fns.items() for cs in calls(b["body"]) if cs.callee == PARSER + "expect")
    r.floor("expect call sites", sites, 30)
    for (k, caller) in sorted(consts):
        r.instance("%s:expect(%s)" % (caller, k), sample={"caller": caller, "kind": k, "named": k in dom})
        if k not in dom:
            r.violation("%s:expect(%s)" % (caller, k),
                        "expect(%s) reaches token_name(%s).expect(\"missing name\") on mismatch, but token_name has "
                        "no arm for %s: any input where the next token is not %s panics" % (k, k, k, k),
                        caller)
    for (p, line, txt) in unknown:
        r.violation("%s:expect(<non-constant %s>)" % (p, txt),
                    "argument of expect is not a TokenKind constant or forwarded parameter; cannot be bounded",
                    "%s:%d" % (p, line))


def cast_sets(c):
    """union/type name → (cast-set kinds, raw kinds) read from the *expanded* can_cast/cast bodies."""
    sets = {}
    for p, b in c.hir.items():
        if not p.endswith("as dora_parser::ast::SyntaxNodeBase>::can_cast"):
            continue
        ty = p[1:].split(" as ")[0]
        kinds = set()
        for n in hirq.walk(b["body"]):
            if n[0] == "match":
                for (pat, guard, arm) in hirq.match_arms(n):
                    a = hirq.strip(arm)
                    if hirq.is_node(a) and a[0] == "lit" and a[2] is True:
                        for d in hirq.pat_paths(pat):
                            kinds.add(last(d))
            elif n[0] == "bin" and n[1] == "Eq":
                k = kind_const(n[3]) or kind_const(n[2])
                if k:
                    kinds.add(k)
        sets[ty] = kinds
    raw = {}
    for ty in sets:
        b = c.hir.get(ty + "::cast")
        rk = set()
        if b:
            for n in hirq.walk(b["body"]):
                if n[0] == "match":
                    for (pat, guard, arm) in hirq.match_arms(n):
                        for cs in calls(arm):
                            if cs.is_method and cs.name == "unwrap" and cs.recv_ty and cs.recv_ty.endswith(
                                    "Option<dora_parser::ast::SyntaxNode>"):
                                for d in hirq.pat_paths(pat):
                                    rk.add(last(d))
        raw[ty] = rk
    return sets, raw


def _leaf_kinds(e):
    """all leaves of an if/match/block expression are TokenKind constants → set, else None"""
    e = hirq.unmacro(e)
    k = kind_const(e)
    if k:
        return {k}
    if not hirq.is_node(e):
        return None
    if e[0] == "block" and e[2] is not None:
        return _leaf_kinds(e[2])
    if e[0] == "match":
        out = set()
        for (_p, _g, arm) in hirq.match_arms(e):
            ks = _leaf_kinds(arm)
            if ks is None:
                return None
            out |= ks
        return out
    if e[0] == "if" and e[3] is not None:
        a, b = _leaf_kinds(e[2]), _leaf_kinds(e[3])
        if a is None or b is None:
            return None
        return a | b
    return None


def kind_values(fns, p, b, e):
    """the set of TokenKind constants expression e (inside function p) can evaluate to, or None"""
    k = kind_const(e)
    if k:
        return {k}
    ln = local_name(e)
    if ln is None:
        return None
    pi = _param_index(b, ln)
    if pi is not None:
        consts, unknown = const_args(fns, p, pi)
        if unknown or not consts:
            return None
        return {k for (k, _c) in consts}
    inits = [n for n in hirq.walk(b["body"]) if n[0] == "let" and hirq.is_node(n[1]) and n[1][0] == "pbind"
             and n[1][1] == ln]
    if len(inits) == 1 and inits[0][2] is not None:
        return _leaf_kinds(inits[0][2])
    return None


def closed_sets(fns):
    """fn → set of kinds it closes with its own markers; plus forwarding through marker parameters."""
    own = {}
    via_param = {}
    close = PARSER + "close"
    nclose = 0
    for p, b in fns.items():
        own[p] = set()
        via_param[p] = set()
        params = {pat[1] for (pat, _t) in b["params"] if hirq.is_node(pat) and pat[0] == "pbind"}
        for cs in calls(b["body"]):
            if cs.callee != close:
                continue
            nclose += 1
            ks = kind_values(fns, p, b, cs.args[1]) if len(cs.args) > 1 else None
            m = local_name(hirq.strip(cs.args[0])) if cs.args else None
            if m is None and cs.args:
                # m.clone()
                a0 = hirq.strip(cs.args[0])
                if hirq.is_node(a0) and a0[0] == "mcall" and a0[3] == "clone":
                    m = local_name(a0[4])
            if ks is None:
                own[p].add("<non-constant>")
                continue
            if m in params:
                via_param[p] |= ks
            else:
                own[p] |= ks
    # a caller passing its own marker to g inherits g's via_param closes
    changed = True
    total = {p: set(s) for p, s in own.items()}
    vp = {p: set(s) for p, s in via_param.items()}
    while changed:
        changed = False
        for p, b in fns.items():
            params = {pat[1] for (pat, _t) in b["params"] if hirq.is_node(pat) and pat[0] == "pbind"}
            for cs in calls(b["body"]):
                if cs.callee in vp and vp[cs.callee]:
                    # is one of the args a marker local/param of p?
                    marker_args = [local_name(a) for a in cs.args]
                    fwd_param = any(m in params and m is not None for m in marker_args)
                    tgt = vp[p] if fwd_param else total[p]
                    before = len(tgt)
                    tgt |= vp[cs.callee]
                    if len(tgt) != before:
                        changed = True
    return total, vp, nclose


def run_r2(chk, c):
    r = chk.rule("C06.R2", "the ERROR_* kind a production closes is castable by the AST union of its sibling "
                           "kinds, and every ERROR_* raw kind of a union is produced beside one of its success kinds")
    fns = _parser_fns(c)
    sets, raw = cast_sets(c)
    unions = {ty: ks for ty, ks in sets.items() if len(ks) > 1}
    r.floor("AST unions", len(unions), 6)
    total, vp, nclose = closed_sets(fns)
    r.floor("close() call sites", nclose, 90)
    success = {u: {k for k in ks if not k.startswith("ERROR_")} for u, ks in unions.items()}
    err_unions = [u for u in unions if any(k.startswith("ERROR_") for k in unions[u])]
    r.floor("unions with an error variant", len(err_unions), 5)
    for p in sorted(total):
        closed = total[p] | vp[p]
        errs = {k for k in closed if k.startswith("ERROR_")}
        if "<non-constant>" in closed:
            r.violation("%s:close(<non-constant>)" % p, "close() called with a non-constant kind", p)
        if not errs:
            continue
        overlap = {u: len(success[u] & closed) for u in unions}
        best = max(overlap.values()) if overlap else 0
        if best == 0:
            for e in sorted(errs):
                r.instance("%s:%s:unconsumed" % (p, e), nontrivial=False)
                r.observe("%s closes %s but no success kind of any union (consumed only through filter_map)" % (p, e))
            continue
        owners = [u for u in unions if overlap[u] == best]
        for e in sorted(errs):
            for u in owners:
                key = "%s:%s∉cast-set(%s)" % (p, e, last(u))
                r.instance(key, sample={"production": p, "error_kind": e, "union": u,
                                        "castable": e in unions[u]})
                if e not in unions[u]:
                    r.violation(key,
                                "%s closes %s on its error path beside %d success kinds of %s, but %s::cast does not "
                                "accept %s: every mandatory-child accessor `find_map(%s::cast).unwrap()` on the parent "
                                "panics for inputs taking that path" % (p, e, best, last(u), last(u), e, last(u)), p)
    for u in sorted(err_unions):
        for e in sorted(k for k in raw.get(u, ()) if k.startswith("ERROR_")):
            producers = [p for p in total if e in (total[p] | vp[p]) and (success[u] & (total[p] | vp[p]))]
            key = "%s:%s:never-produced-with-siblings" % (last(u), e)
            r.instance(key, sample={"union": u, "raw_kind": e, "producers": producers[:3]})
            if not producers:
                r.violation(key,
                            "%s accepts raw kind %s, but no production closes %s together with a success kind of %s "
                            "(the union's error variant can never be produced where its members are)"
                            % (last(u), e, e, last(u)), u)


def run(chk, F):
    c = F.crate("dora_parser")
    run_r1(chk, c)
    run_r2(chk, c)
    try:
        from rules import c06_cursor
    except ImportError:
        c06_cursor = None
    if c06_cursor is not None:
        c06_cursor.run(chk, c)
    try:
        from rules import c06_children
    except ImportError:
        c06_children = None
    if c06_children is not None:
        c06_children.run(chk, c, F)
    run_r5(chk, F)
    run_r6(chk, F)
    from rules import c06_lookup
    c06_lookup.run(chk, c)
    from rules import c06_spans
    c06_spans.run(chk, F)
    chk.assumptions += [
        "decides three structural panic sources in dora-parser; value-dependent unwrap/index sites in dora-frontend "
        "and termination of the type checker are not decided",
    ]


# --------------------------------------------------------------------------- R5
def run_r5(chk, F):
    """Type expansion (parsety::expand_st) follows aliases without a cycle guard of its own: it trusts
    aliasck's detector to have replaced every cyclic occurrence by SourceType::Error.  The detector is a
    structural traversal of SourceType; a nested-type position it does not descend into is a position
    through which an alias cycle survives detection and expansion then recurses forever (stack overflow)."""
    r = chk.rule("C06.R5", "the alias-cycle detector (aliasck::expand_type) descends into every nested-type field of "
                           "every SourceType variant (type expansion trusts it for termination)")
    fe = F.crate("dora_frontend")
    st = fe.adt("ty::SourceType")
    fn = fe.hir_fn("aliasck::expand_type")
    if not (r.anchor("dora_frontend::ty::SourceType", st) and r.anchor("dora_frontend::aliasck::expand_type", fn)):
        return
    # belief check: expansion really follows aliases and relies on the detector
    ex = fe.hir_fn("parsety::expand_st")
    r.anchor("dora_frontend::parsety::expand_st", ex)
    m = None
    for n in hirq.walk(fn["body"]):
        if n[0] == "match":
            m = n
            break
    if not r.anchor("expand_type: match on SourceType", m):
        return
    traversal = ("dora_frontend::aliasck::expand_type", "dora_frontend::aliasck::expand_sta")
    nested = {}
    for v in st["variants"]:
        for i, f in enumerate(v["fields"]):
            if "ty::SourceType" in f["ty"]:
                nested.setdefault(v["name"], []).append((i, f["name"], f["ty"]))
    r.floor("SourceType variants with nested types", len(nested), 6)
    arms = hirq.match_arms(m)
    for vname, fields in sorted(nested.items()):
        # arms naming this variant
        mine = []
        for (pat, guard, body) in arms:
            for sub in (pat[1] if pat[0] == "por" else [pat]):
                d = hirq.pat_paths(sub)
                if d and last(d[0]) == vname:
                    mine.append((sub, guard, body))
        for (idx, fname, fty) in fields:
            key = "%s.%s" % (vname, fname)
            ok_all = bool(mine)
            detail = "no arm"
            for (sub, guard, body) in mine:
                bound = None
                if sub[0] == "pts" and idx < len(sub[2]):
                    p = sub[2][idx]
                    if hirq.is_node(p) and p[0] == "pbind":
                        bound = p[1]
                elif sub[0] == "pstruct":
                    for (fn_, p) in sub[2]:
                        if fn_ == fname and hirq.is_node(p) and p[0] == "pbind":
                            bound = p[1]
                passed = False
                if bound is not None:
                    for cs in calls(body):
                        if cs.callee in traversal:
                            for a in cs.all_args():
                                if any(n[0] == "local" and n[1] == bound for n in hirq.walk(a)):
                                    passed = True
                if not passed and guard is not None and bound is not None and any(
                        n[0] == "local" and n[1] == bound for n in hirq.walk(guard)):
                    # the guard inspects this very field (e.g. `assoc_ty.is_self()`): a leaf case of the variant;
                    # an unguarded arm of the same variant must do the traversal
                    if any(g2 is None for (_s, g2, _b) in mine):
                        continue
                if not passed:
                    ok_all = False
                    detail = ("field not bound (`..`/`_`)" if bound is None else "bound as `%s` but never traversed"
                              % bound) + (" [arm has a guard]" if guard is not None else "")
            r.instance("expand_type:%s" % key, sample={"variant": vname, "field": fname, "type": fty,
                                                       "traversed": ok_all})
            if not ok_all:
                r.violation("dora_frontend::aliasck::expand_type:%s:not-traversed" % key,
                            "the cycle detector does not descend into SourceType::%s.%s (%s): an alias that reaches "
                            "itself through that position is not reported, and type expansion then recurses until "
                            "the stack overflows" % (vname, fname, detail), fn["file"])


# --------------------------------------------------------------------------- R6
TEXT_CONVERSIONS = ("core::str::<impl str>::parse", "::from_str_radix", "core::str::traits::FromStr>::from_str",
                    "core::char::methods::<impl char>::from_u32", "core::char::methods::<impl char>::from_digit",
                    "core::char::methods::<impl char>::to_digit", "core::str::converts::from_utf8",
                    "alloc::string::String::from_utf8", "core::char::convert::from_u32")


def run_r6(chk, F):
    """The lexer accepts more than the standard library's number/char grammars (`1.0e`, `0b` followed by a float
    suffix, ...): a text→value conversion of token text can fail for lexically valid tokens, so its failure is an
    *input* condition and must become a diagnostic, never an unwrap/expect."""
    import cfg
    r = chk.rule("C06.R6", "no unwrap/expect on the result of a standard text→value conversion (str::parse, "
                           "from_str_radix, char::from_u32/from_digit/to_digit, from_utf8) of program text in the "
                           "lexer, parser or semantic analysis")
    nconv = nfn = 0
    for cn in ("dora_parser", "dora_frontend"):
        c = F.crate(cn)
        for pth, mb in sorted(c.mir.items()):
            if "::tests::" in pth or pth.endswith("::tests") or "::test_" in pth:
                continue
            nfn += 1
            B = cfg.Body(mb)
            convs = [x for x in B.calls if x.name and any(k in x.name for k in TEXT_CONVERSIONS)]
            if not convs:
                continue
            defs = cfg.simple_defs(B)
            for x in convs:
                nconv += 1
                r.instance("%s:%s" % (pth, last(x.name)), sample={"fn": pth, "conversion": x.name})
            for x in B.calls:
                nm = x.name or ""
                if not (nm.startswith(("core::result::Result", "core::option::Option")) and
                        last(nm) in ("unwrap", "expect", "unwrap_unchecked")) or not x.args:
                    continue
                if x.args[0][0] not in ("c", "m"):
                    continue
                o = cfg.origin(B, x.args[0], defs)
                if o[0] != "call":
                    continue
                inner = cfg.callee_name(cfg.callee_of(o[1]["f"])) or ""
                if any(k in inner for k in TEXT_CONVERSIONS):
                    r.violation("%s:%s().%s" % (pth, last(inner), last(nm)),
                                "the result of `%s` on program text is %s'ed: a token the lexer accepts but the "
                                "standard grammar rejects (e.g. `1.0e`, `0bf32`) makes the front end panic instead "
                                "of reporting a diagnostic" % (last(inner), last(nm)), "%s:%d" % (B.file, x.line))
    r.floor("front-end functions scanned", nfn, 3000)
    r.floor("text→value conversion sites", nconv, 4)

"""C13 — running out of stack or heap ends in the documented trap, never in a crash.

Decided clauses:
  R1  every compiled function checks the stack limit in its prologue, after the frame is allocated,
      in both code generators and both boots targets
  R2  the limit is installed before managed code is entered (main and spawned threads) and the
      budget is smaller than the real thread stack
  R3  a program-supplied array length is range-checked before a size that can wrap is computed
  R4  Gc::alloc either returns an allocated address or ends in the out-of-memory report; every
      retry is preceded by a collection
That the budget's margin covers every native callee's stack use is NOT decided.
"""
import cfg
import doraq
import hirq
from callgraph import CallGraph

RT = "dora_runtime::"
CC = "dora_cannon_compiler::"


def last(p):
    return p.rsplit("::", 1)[-1]


def rule_r1(chk, F):
    r = chk.rule("C13.R1", "every code-generation entry of both compilers emits the prologue and then the stack-limit "
                           "check before anything else; the check compares SP with ThreadLocalData::stack_limit and "
                           "its slow path calls the stack-overflow trampoline")
    c = F.crate("dora_cannon_compiler")
    cg = CallGraph(F, libs=["dora_cannon_compiler"], bins=[])
    gens = []
    for f in c.items["fns"]:
        if f.get("self_ty", "").startswith(CC + "codegen::CannonCodeGen") and f["pub"] and \
                f["output"].endswith("CodeDescriptor") and f["inputs"] and "CannonCodeGen" in f["inputs"][0]:
            gens.append(f["path"])
    r.floor("CannonCodeGen generate entries", len(gens), 2)
    efe = [p for p in cg.bodies if p.endswith("CannonCodeGen::<'a, 'i>::emit_function_entry")]
    if not r.anchor("CannonCodeGen::emit_function_entry", efe):
        return
    for g in gens:
        B = cg.body(g)
        if B is None:
            continue
        en = [x for x in B.calls if x.name == efe[0]]
        r.instance("%s:entry-first" % g, sample={"fn": g})
        if not en:
            r.violation(g + ":no-function-entry",
                        "%s produces code without the function entry sequence (no prologue, no stack-limit check): "
                        "deep recursion through this function overruns the stack instead of trapping" % last(g), g)
            continue
        e = en[0]
        # every call that emits code (through self.asm or another emit_* of the generator) is dominated by it
        for x in B.calls:
            if x is e or not x.name:
                continue
            emits = x.name.startswith(CC + "asm::BaselineAssembler") or \
                (x.name.startswith(CC + "codegen::CannonCodeGen") and last(x.name).startswith(("emit_", "visit_"))) \
                or x.name.startswith("dora_bytecode::reader::read")
            if emits and not B.dominates(e.block, x.block):
                r.violation(g + ":code-before-entry:" + last(x.name),
                            "%s can run before emit_function_entry" % last(x.name), x.where())
    E = cg.body(efe[0])
    pro = [x for x in E.calls if x.name and last(x.name) == "emit_prolog"]
    chkc = [x for x in E.calls if x.name and last(x.name) == "emit_stack_limit_check"]
    r.instance("emit_function_entry:prolog→stack-check")
    if not pro or not chkc:
        r.violation(efe[0] + ":missing-prolog-or-stack-check",
                    "the function entry must allocate the frame and then check the stack limit", E.file)
    else:
        if not (E.postdominates(pro[0].block, 0) and E.postdominates(chkc[0].block, 0)):
            r.violation(efe[0] + ":skippable", "prologue or stack check can be skipped", E.file)
        if not E.dominates(pro[0].block, chkc[0].block):
            r.violation(efe[0] + ":stack-check-before-frame",
                        "the stack limit must be checked after the frame is allocated (the check compares the new "
                        "SP); checking before lets a large frame jump over the guard region", chkc[0].where())
    esc = [p for p in cg.bodies if p.endswith("CannonCodeGen::<'a, 'i>::emit_stack_limit_check")]
    if r.anchor("CannonCodeGen::emit_stack_limit_check", esc):
        reach = cg.reachable_from(esc)
        r.instance("emit_stack_limit_check→masm")
        tgt = [p for p in reach if p.endswith("MacroAssembler>::check_stack_limit")
               or p.endswith("MacroAssembler::check_stack_limit")]
        if not tgt:
            r.violation(esc[0] + ":no-masm-check", "does not reach MacroAssembler::check_stack_limit", esc[0])
    # masm check: compares [REG_THREAD + stack_limit_offset] with RSP
    mh = None
    for p, b in c.hir.items():
        if p.endswith("MacroAssembler>::check_stack_limit"):
            mh = b
    if r.anchor("x64 MacroAssembler::check_stack_limit", mh):
        cs = list(hirq.calls(mh["body"]))
        off = [x for x in cs if x.callee and x.callee.endswith("::stack_limit_offset")]
        cmpq = [x for x in cs if x.is_method and x.name.startswith("cmp")]
        jcc = [x for x in cs if x.is_method and x.name == "jcc"]
        rsp = [n for n in hirq.walk(mh["body"]) if n[0] == "def" and n[2].endswith("::RSP")]
        r.instance("masm::check_stack_limit:shape", sample={"cmp": [x.name for x in cmpq]})
        if not (off and cmpq and jcc and rsp):
            r.violation("masm::check_stack_limit:shape",
                        "must compare ThreadLocalData::stack_limit with RSP and branch to the overflow label",
                        mh["file"])
    # slow path calls the trampoline
    sp = None
    for p, b in c.hir.items():
        if p.endswith("BaselineAssembler::<'a>::slow_path_stack_overflow"):
            sp = b
    if r.anchor("BaselineAssembler::slow_path_stack_overflow", sp):
        tr = [n for n in hirq.walk(sp["body"]) if n[0] == "def" and n[2].endswith("RuntimeFunction::StackOverflowTrampoline")]
        r.instance("slow_path_stack_overflow→StackOverflowTrampoline")
        if not tr:
            r.violation("BaselineAssembler::slow_path_stack_overflow:no-trampoline",
                        "the overflow slow path must call the stack-overflow trampoline", sp["file"])
    # offsets
    rt = F.crate("dora_runtime")
    tld = rt.adt("threads::ThreadLocalData")
    consts = doraq.consts(F.dora()["pkgs/boots/interface.dora"])
    if r.anchor("ThreadLocalData", tld):
        off = {f["name"]: f.get("offset") for f in tld["variants"][0]["fields"]}
        v = consts.get("THREAD_LOCAL_DATA_STACK_LIMIT_OFFSET")
        r.instance("THREAD_LOCAL_DATA_STACK_LIMIT_OFFSET", sample={"dora": v, "rust": off.get("stack_limit")})
        if v != off.get("stack_limit"):
            r.violation("interface.dora:THREAD_LOCAL_DATA_STACK_LIMIT_OFFSET",
                        "Dora constant %s != Rust offset %s: the optimizing compiler compares SP with the wrong "
                        "word" % (v, off.get("stack_limit")), "pkgs/boots/interface.dora")
    # boots
    D = F.dora()
    t = D.get("pkgs/boots/codegen.dora")
    if r.anchor("pkgs/boots/codegen.dora", t):
        gc = [f for f in doraq.functions(t, "pkgs/boots/codegen.dora") if f.name == "generate_code"]
        if r.anchor("boots generate_code", gc):
            cs = [x.callee for x in doraq.calls(gc[0].body)]
            ip = [i for i, x in enumerate(cs) if x.endswith(".emit_prolog")]
            ic = [i for i, x in enumerate(cs) if x.endswith(".emit_stack_limit_check")]
            loops = [n for n in doraq.walk(gc[0].body) if n[0] in ("FOR_EXPR", "WHILE_EXPR")]
            r.instance("boots generate_code:prolog→stack-check→blocks")
            if not ip or not ic or ip[0] > ic[0]:
                r.violation("pkgs/boots/codegen.dora::generate_code:no-stack-check",
                            "generate_code must emit the prologue and then the stack-limit check", gc[0].where())
            elif loops:
                first_loop_line = min(n[1] for n in loops)
                chk_line = [x.line for x in doraq.calls(gc[0].body) if x.callee.endswith(".emit_stack_limit_check")][0]
                if chk_line > first_loop_line:
                    r.violation("pkgs/boots/codegen.dora::generate_code:stack-check-after-blocks",
                                "the stack-limit check must precede the block loop", gc[0].where())
    for f in ("pkgs/boots/codegen/x64.dora", "pkgs/boots/codegen/arm64.dora"):
        t = D.get(f)
        if not r.anchor(f, t):
            continue
        fn = [x for x in doraq.functions(t, f) if x.name == "emit_stack_limit_check"]
        if r.anchor(f + " emit_stack_limit_check", fn):
            txt = doraq.text(fn[0].body)
            r.instance(f + ":emit_stack_limit_check")
            if "THREAD_LOCAL_DATA_STACK_LIMIT_OFFSET" not in txt:
                r.violation(f + "::emit_stack_limit_check:not-stack-limit",
                            "does not load THREAD_LOCAL_DATA_STACK_LIMIT_OFFSET", fn[0].where())
            if "StackOverflow" not in doraq.text(t):
                r.violation(f + ":no-stack-overflow-call", "no stack-overflow trampoline call in this back end", f)


def rule_r2(chk, F):
    r = chk.rule("C13.R2", "set_stack_limit(stack_pointer() - STACK_SIZE) dominates the entry into managed code on "
                           "the main thread and on spawned threads; STACK_SIZE is below the spawned thread's stack")
    rt = F.crate("dora_runtime")
    for fn, what in ((RT + "runtime::execute_on_main", "callback"), (RT + "stdlib::thread_main", "trampoline")):
        mb = rt.mir.get(fn)
        if not r.anchor(fn, mb):
            continue
        B = cfg.Body(mb)
        ssl = B.calls_to("threads::ThreadLocalData::set_stack_limit")
        if what == "callback":
            entry = [x for x in B.calls if x.fn and (x.fn.get("tr") or "").startswith("core::ops::function::Fn")]
        else:
            # call through a transmuted function pointer: callee operand is a local, not a constant
            entry = []
            for bi, blk in enumerate(B.blocks):
                t = blk["t"]
                if t[0] == "call" and t[1]["f"][0] in ("c", "m") and not blk["c"]:
                    entry.append(cfg.Call(B, bi, t[1]))
        r.anchor(fn + ": managed-code entry call", entry)
        r.instance(fn + ":limit-before-entry", sample={"fn": fn})
        if not ssl:
            r.violation(fn + ":no-set_stack_limit",
                        "managed code is entered without a stack limit: the limit word is 0 and no recursion depth "
                        "ever traps", B.file)
            continue
        for e in entry:
            if not any(B.dominates(s.block, e.block) for s in ssl):
                r.violation(fn + ":entry-before-set_stack_limit",
                            "managed code can be entered before the stack limit is installed", e.where())
        # the limit is stack_pointer() - STACK_SIZE
        s = ssl[0]
        defs = cfg.simple_defs(B)
        o = cfg.origin(B, s.args[1], defs) if len(s.args) > 1 else None
        ok = False
        if o and o[0] == "call":
            nm = cfg.callee_name(cfg.callee_of(o[1]["f"])) or ""
            if last(nm) == "sub":
                a0 = cfg.origin(B, o[1]["a"][0], defs)
                a1 = o[1]["a"][1]
                sp = a0[0] == "call" and last(cfg.callee_name(cfg.callee_of(a0[1]["f"])) or "") == "stack_pointer"
                sz = a1[0] == "k" and (a1[1].get("const") or "").endswith("STACK_SIZE")
                if not sz:
                    oo = cfg.origin(B, a1, defs)
                    sz = oo[0] == "const" and (oo[1].get("const") or "").endswith("STACK_SIZE")
                ok = sp and sz
        r.instance(fn + ":limit-is-sp-minus-STACK_SIZE")
        if not ok:
            r.violation(fn + ":limit-not-sp-minus-STACK_SIZE",
                        "the installed limit is not `stack_pointer().sub(STACK_SIZE)`", s.where())
    ss = rt.const("threads::STACK_SIZE")
    if r.anchor("threads::STACK_SIZE", ss and ss.get("value") is not None):
        r.instance("STACK_SIZE", sample={"value": ss["value"]})
        default_thread_stack = 2 * 1024 * 1024     # std::thread default (RUST_MIN_STACK unset) — std documentation
        if ss["value"] >= default_thread_stack:
            r.violation("threads::STACK_SIZE:exceeds-thread-stack",
                        "STACK_SIZE (%d) is not below the 2 MiB stack std::thread::spawn gives a new thread" % ss["value"],
                        ss["file"])
        # any Builder::stack_size in the runtime must exceed the budget
        for p, mb in rt.mir.items():
            B = cfg.Body(mb)
            for x in B.calls:
                if x.name and x.name.endswith("thread::Builder::stack_size"):
                    a = x.args[1] if len(x.args) > 1 else None
                    v = a[1].get("v") if a and a[0] == "k" else None
                    r.instance(p + ":Builder::stack_size", sample={"value": v})
                    if v is None or v <= ss["value"]:
                        r.violation(p + ":thread-stack-too-small",
                                    "thread created with stack_size %s <= STACK_SIZE budget %d" % (v, ss["value"]),
                                    x.where())


def rule_r3(chk, F, rid="C13.R3"):
    r = chk.rule(rid, "a program-supplied array length is range-checked before the allocation size is computed "
                           "(both code generators)")
    c = F.crate("dora_cannon_compiler")
    p = None
    for q in c.mir:
        if q.endswith("CannonCodeGen::<'a, 'i>::emit_new_array"):
            p = q
    if r.anchor("CannonCodeGen::emit_new_array", p):
        B = cfg.Body(c.mir[p])
        das = [x for x in B.calls if x.name and last(x.name) == "determine_array_size"]
        alloc = [x for x in B.calls if x.name and last(x.name) == "allocate"]
        bail = [x for x in B.calls if x.name and last(x.name) in ("bailout_if", "emit_bailout")]
        cmps = [x for x in B.calls if x.name and last(x.name) in ("cmp_reg", "cmp_reg_imm", "cmp_mem", "cmp_mem_imm")]
        r.anchor("emit_new_array: determine_array_size", das)
        r.anchor("emit_new_array: allocate", alloc)
        r.instance(p + ":length-guard", sample={"bailouts": len(bail), "compares": len(cmps)})
        ok = False
        for b in bail:
            if any(B.dominates(cm.block, b.block) for cm in cmps) and all(B.dominates(b.block, d.block) for d in das) \
                    and all(B.dominates(b.block, a.block) for a in alloc):
                # unsigned comparison (catches negative lengths too) or two-sided
                o = cfg.origin(B, b.args[1]) if len(b.args) > 1 else None
                cond = o[1][2] if o and o[0] == "agg" and o[1][0] == "adt" else None
                if cond and cond.startswith("Unsigned"):
                    ok = True
                elif cond:
                    r.observe("length guard uses signed condition %s" % cond)
                    ok = len(bail) >= 2
        # the guard compares the whole length: the function itself states that the length register is Int64
        # (`assert_eq!(register_type(length), BytecodeType::Int64)`), so the compare's MachineMode must be a 64-bit one
        hb = c.hir.get(p)
        states_int64 = hb is not None and any(
            n[0] == "def" and n[2].endswith("BytecodeType::Int64") for n in hirq.walk(hb["body"]))
        guard_cmps = [cm for cm in cmps if any(B.dominates(cm.block, b.block) for b in bail)
                      and all(B.dominates(cm.block, d.block) for d in das)]
        for cm in guard_cmps:
            mode = None
            for a in cm.args:
                o = cfg.origin(B, a)
                if o[0] == "agg" and o[1][0] == "adt" and o[1][1].endswith("MachineMode"):
                    mode = o[1][2]
            r.instance(p + ":length-guard:compare-width", sample={"compare": last(cm.name), "mode": mode,
                                                                  "length_is_int64": states_int64})
            if mode is None or not states_int64:
                r.violation("ANALYSIS:" + p + ":length-guard:compare-width-unknown",
                            "cannot determine the width of the length guard's comparison", cm.where())
            elif mode not in ("Int64", "Ptr", "IntPtr"):
                r.violation(p + ":length-guard:compares-%s-of-an-Int64-length" % mode,
                            "the array-length guard compares with MachineMode::%s although the length is an Int64: "
                            "only the low bits take part, so a length such as 2^61+4 (or -2^32+5) passes the guard and "
                            "the unchecked size computation wraps to a tiny or negative allocation size" % mode,
                            cm.where())
        if not ok:
            r.violation(p + ":no-length-range-check",
                        "the array length flows into determine_array_size/allocate without an (unsigned) range check: "
                        "Array[Int64]::zero(2^61+1) wraps the size to a tiny object and later stores corrupt memory; "
                        "zero(-1) crashes", B.file)
    # boots
    f = "pkgs/boots/bytecode_graph_builder.dora"
    t = F.dora().get(f)
    if r.anchor(f, t):
        fn = [x for x in doraq.functions(t, f) if x.name == "emit_new_array"]
        if r.anchor(f + "::emit_new_array", fn):
            txt = doraq.text(fn[0].body)
            r.instance(f + "::emit_new_array:checked-size-arithmetic")
            if "Op::CheckedMul" not in txt or "Op::CheckedAdd" not in txt:
                r.violation(f + "::emit_new_array:unchecked-size",
                            "the optimizing compiler computes length*element_size+header without overflow checks",
                            fn[0].where())
            # sign check on the length: some check instruction consuming `length` before the multiplication
            body_calls = list(doraq.calls(fn[0].body))
            names = [c.callee for c in body_calls]
            sign = any(("check" in n.lower() and "bounds" not in n.lower() and "array" in n.lower()) or
                       n.endswith("create_check_array_length_inst") or "CheckNonNegative" in n or
                       "Op::CheckArrayLength" in (c.arg_text(0) or "")
                       for n, c in zip(names, body_calls))
            r.instance(f + "::emit_new_array:length-sign-check")
            if not sign and "GreaterOrEqual" not in txt and "Op::Less" not in txt:
                r.violation(f + "::emit_new_array:no-length-sign-check",
                            "a negative length is not refused: CheckedMul(-1, 8)+header does not overflow, the "
                            "object is allocated with a size smaller than its header and length -1 is stored "
                            "(unsigned bounds checks then accept every index)", fn[0].where())
    # runtime-internal callers (lengths of existing buffers) are listed, not failed
    rt = F.crate("dora_runtime")
    for q in sorted(rt.mir):
        if last(q) in ("str_alloc",) or q.endswith("mirror::Array::<T>::alloc"):
            r.observe("%s multiplies unchecked but every caller passes the length of an existing buffer" % q)


def rule_r4(chk, F):
    r = chk.rule("C13.R4", "Gc::alloc returns an allocated address or ends in the out-of-memory report; every retry is "
                           "preceded by a collection")
    rt = F.crate("dora_runtime")
    mb = rt.mir.get(RT + "gc::Gc::alloc")
    if not r.anchor(RT + "gc::Gc::alloc", mb):
        return
    B = cfg.Body(mb)
    raw = B.calls_to("gc::Gc::allocate_raw")
    col = B.calls_to("gc::Gc::collect_garbage")
    stw = B.calls_to("safepoint::stop_the_world")
    r.anchor("alloc: allocate_raw", raw)
    r.anchor("alloc: collect_garbage", col)
    r.anchor("alloc: stop_the_world(report_out_of_memory_error)", stw)
    # every normal return is reached from a successful allocate_raw (Some edge) — i.e. no return block is
    # reachable when all Some-edges are cut, except through stop_the_world (which must diverge)
    some_targets = set()
    for x in raw:
        d = x.dest[0]
        for i in B.reachable_from_succ(x.block):
            t = B.blocks[i]["t"]
            if t[0] == "switch" and t[1][0] in ("c", "m"):
                o = cfg.origin(B, t[1])
                if o[0] == "discr" and o[1][0] == d:
                    arms = dict((v, b) for v, b in t[2])
                    if 1 in arms:
                        some_targets.add(arms[1])
                    else:
                        some_targets.add(t[3])
                    break
    r.instance("Gc::alloc:returns-only-allocated-addresses", sample={"allocate_raw_sites": len(raw)})
    rets = set(B.exits())
    avoid = set(some_targets) | {s.block for s in stw}
    leak = B.reachable(0, avoid=avoid) & rets
    if leak:
        r.violation(RT + "gc::Gc::alloc:returns-without-allocation",
                    "Gc::alloc can return without a successful allocate_raw and without reporting out-of-memory: the "
                    "caller receives a null/garbage address", "%s (bb%s)" % (B.file, sorted(leak)))
    # the OOM closure diverges
    clos = [p for p in rt.mir if p.startswith(RT + "gc::Gc::alloc::{closure")]
    oom = RT + "gc::report_out_of_memory_error"
    it = rt.fn("gc::report_out_of_memory_error")
    r.instance("report_out_of_memory_error:diverges")
    if not it or it["output"] != "!":
        r.violation(oom + ":not-diverging", "the out-of-memory report must not return", oom)
    ok = False
    for cp in clos:
        CB = cfg.Body(rt.mir[cp])
        if CB.calls_to("gc::report_out_of_memory_error"):
            ok = True
    if not ok:
        r.violation(RT + "gc::Gc::alloc:no-oom-report", "exhausting the retry ladder must report out of memory", B.file)
    # each allocate_raw after the first is dominated by a collect_garbage that it follows
    first = min(raw, key=lambda x: x.line) if raw else None
    for x in raw:
        if x is first:
            continue
        r.instance("Gc::alloc:retry-after-collection@%d" % x.line, nontrivial=True)
        if not any(B.dominates(g.block, x.block) and x.block in B.reachable_from_succ(g.block) for g in col):
            r.violation(RT + "gc::Gc::alloc:retry-without-collection",
                        "an allocation retry is not preceded by a collection", x.where())
    # trap exits with OOM code
    rp = rt.hir_fn("gc::report_out_of_memory_error")
    if rp:
        txt = repr(rp["body"])
        r.instance("report_out_of_memory_error→trap(OOM)")
        if "Trap::OOM" not in txt:
            r.violation(oom + ":not-oom-trap", "must end in trap(Trap::OOM)", oom)


def rule_r5(chk, F):
    r = chk.rule("C13.R5", "a frame that is allocated before the stack limit is checked must have a compile-time "
                           "bounded size (below the unmapped margin), or the limit must be tested against SP minus the "
                           "frame size before SP moves / the new frame must be probed: otherwise the overflow slow "
                           "path's own `call` pushes into unmapped memory")
    c = F.crate("dora_cannon_compiler")
    # cannon: is self.framesize ever compared with a constant / asserted before emit_prolog?
    bounded = []
    for p, b in c.hir.items():
        if "CannonCodeGen" not in p:
            continue
        for n in hirq.walk(b["body"]):
            if n[0] == "bin" and n[1] in ("Lt", "Le", "Gt", "Ge"):
                txt = repr(n)
                if "'framesize'" in txt or "'stacksize'" in txt:
                    bounded.append(p)
    pro = c.hir_fn("MacroAssembler>::prolog") or next((b for q, b in c.hir.items() if q.endswith("MacroAssembler>::prolog")), None)
    sub_unconditional = False
    if r.anchor("x64 MacroAssembler::prolog", pro):
        subs = [cs for cs in hirq.calls(pro["body"]) if cs.is_method and cs.name.startswith("subq")]
        sub_unconditional = bool(subs)
    r.instance("cannon:frame-size-bound", sample={"bound_checks_in": sorted(set(bounded))[:3],
                                                  "prolog_lowers_sp": sub_unconditional})
    if sub_unconditional and not bounded:
        r.violation("dora_cannon_compiler::codegen::CannonCodeGen:frame-size-unbounded-before-stack-check",
                    "the baseline prologue lowers SP by an unbounded frame size and only then compares SP with the "
                    "stack limit; the overflow slow path then calls the trampoline at the lowered SP. A function whose "
                    "frame exceeds the unmapped margin below the limit segfaults instead of trapping "
                    "(an ≈ 11 MiB frame: exit 139 on main and on spawned threads)", pro["file"] if pro else "")
    D = F.dora()
    t = D.get("pkgs/boots/codegen.dora")
    if r.anchor("pkgs/boots/codegen.dora", t):
        gc = [f for f in doraq.functions(t, "pkgs/boots/codegen.dora") if f.name == "generate_code"]
        if gc:
            cmp_found = False
            for n in doraq.walk(gc[0].body):
                if n[0] == "BIN_EXPR":
                    tx = doraq.text(n)
                    if "stack_size" in tx and any(op in tx for op in ("<=", "<", ">")) and ">=0" not in tx.replace(" ", ""):
                        cmp_found = True
            r.instance("boots:frame-size-bound", sample={"bounded": cmp_found})
            if not cmp_found:
                r.violation("pkgs/boots/codegen.dora::generate_code:frame-size-unbounded-before-stack-check",
                            "the optimizing compiler's prologue has the same shape: emit_prolog(stack_size) lowers SP "
                            "by an unbounded amount before emit_stack_limit_check()", gc[0].where())


def rule_r6(chk, F):
    """The byte size of an array is length * element_size + header.  The length guard admits lengths up to 2^40, so
    the product needs the full register: a 32-bit multiply/add truncates it, a request of 4 GiB or more is granted
    from the allocation fast path with a tiny size, and later in-bounds stores overwrite neighbouring objects."""
    import re as _re
    r = chk.rule("C13.R6", "the baseline compiler computes an array's allocation size in full register width: the "
                           "size routine emits only 64-bit instruction forms and passes only pointer-width machine "
                           "modes to the helpers it uses")
    c = F.crate("dora_cannon_compiler")
    fns = [p for p in c.mir if last(p) == "determine_array_size" and "::masm::x64::" in p]
    if not r.anchor("masm::x64 determine_array_size", fns):
        return
    # callers: the size must reach the allocation, i.e. the routine is really the allocation-size computation
    users = [p for p, mb in c.mir.items() if "CannonCodeGen" in p and any(
        (x.name or "").endswith("determine_array_size") for x in cfg.Body(mb).calls)]
    r.anchor("code generator functions using determine_array_size", users)
    WIDE = {"Ptr", "Int64", "IntPtr"}
    n = 0
    for p in fns:
        B = cfg.Body(c.mir[p])
        defs = cfg.simple_defs(B)
        for x in B.calls:
            nm = x.name or ""
            if nm.startswith("dora_asm::x64::AssemblerX64::"):
                ins = last(nm)
                n += 1
                wide = ins == "lea" or _re.match(r"^[a-z0-9]+q(_[a-z0-9]+)*$", ins) is not None
                r.instance("%s:%s" % (p, ins), sample={"insn": ins, "64-bit": wide})
                if not wide:
                    r.violation("%s:%s:narrow-instruction-in-size-computation" % (p, ins),
                                "`%s` is not a 64-bit instruction form: length * element_size (+ header) is truncated "
                                "to the narrower width, so an array of 2^28 16-byte elements gets a size of a few "
                                "bytes and is granted instead of ending in the out-of-memory trap" % ins, x.where())
                continue
            for a in x.args:
                if a[0] not in ("c", "m"):
                    continue
                o = cfg.origin(B, a, defs)
                if o[0] == "agg" and isinstance(o[1], list) and len(o[1]) >= 3 and str(o[1][1]).endswith("MachineMode"):
                    n += 1
                    mode = o[1][2]
                    r.instance("%s:%s(MachineMode::%s)" % (p, last(nm), mode), sample={"helper": nm, "mode": mode})
                    if mode not in WIDE:
                        r.violation("%s:%s(MachineMode::%s):narrow-mode-in-size-computation" % (p, last(nm), mode),
                                    "the size computation calls `%s` with MachineMode::%s: the arithmetic is done in "
                                    "%s bits and wraps for requests of 4 GiB and more" % (
                                        last(nm), mode, "32" if "32" in mode else "fewer than 64"), x.where())
    r.floor("instructions/mode arguments in the size routine", n, 5)


def run(chk, F):
    rule_r1(chk, F)
    rule_r2(chk, F)
    rule_r3(chk, F)
    rule_r4(chk, F)
    rule_r5(chk, F)
    rule_r6(chk, F)
    chk.assumptions += [
        "std::thread::spawn's default stack is 2 MiB (std documentation; RUST_MIN_STACK unset)",
        "that the safety margin of the stack budget covers every native callee is a run-time quantity and is not "
        "decided; masm/arm64.rs (cfg(aarch64)) is not analysed on this host",
    ]
    from rules import a64; a64.run_c13(chk, F)  # noqa: E702  arm64 siblings (aarch64 fact set)

"""C06.R7 — totality of the syntax-node lookup by pointer.

Sema stores `SyntaxNodePtr`s (kind + span) and turns them back into nodes with `File::syntax_by_ptr`, which
`expect`s the search function's result: a node of the tree that the search cannot find again is a front-end panic
('node not found for pointer').  Error recovery produces *empty* nodes (a block closed without consuming a token),
which share their offset with their neighbours — the case a span-directed search gets wrong.

The search function only *compares* offsets (plus `start + len` sums), so its decisions depend on nothing but the
relative order of four points: child start, child end, needle start, needle end.  The rule interprets the HIR of the
search function (helpers of `Span` are inlined from their own bodies) on representatives of **every** ordering of those
four points and checks, per loop iteration:

  A  a child whose range contains the needle's range is searched (recursive call / descent at the child's own offset);
  B  a child or token that ends at or before the needle's start never ends the search and is never *committed* to
     (a descent without a way back); the running offset advances by exactly the element's length;
  E  the function answers `Some(node)` when the node itself has the needle's pointer;
  D  a recursive search that comes back empty continues with the next sibling.

A and B overlap exactly for an empty needle at a child's end: only a search that tries the child *and* goes on
afterwards (backtracking) satisfies both.  Anything outside the interpreted fragment is an analysis failure, never a
verdict.
"""
FRAG = "C06.R7"


class Unsupported(Exception):
    pass


class _Break(Exception):
    pass


class _Continue(Exception):
    pass


class _Return(Exception):
    def __init__(self, v):
        self.v = v


class _IterDone(Exception):
    def __init__(self, kind):
        self.kind = kind


def last(p):
    return p.rsplit("::", 1)[-1]


class Interp:
    """One concrete-order evaluation of the search function's first loop iteration."""

    def __init__(self, crate, fn_path, elem, cs, needle_fields, oracle):
        self.c = crate
        self.fn_path = fn_path
        self.elem = elem                  # ("Node", len) | ("Token", len)
        self.cs = cs
        self.needle_fields = needle_fields
        self.oracle = list(oracle)        # answers for unknown booleans, consumed in order
        self.asked = 0
        self.rec_calls = []               # offsets of red nodes handed to the recursive call
        self.commits = []                 # offsets of red nodes assigned to a local declared outside the loop
        self.in_loop = False
        self.loop_outer = set()
        self.offset_local = None
        self.trace = []

    # -- unknown booleans -------------------------------------------------------------------------
    def ask(self, what):
        self.asked += 1
        if not self.oracle:
            raise Unsupported("more than %d undetermined conditions (%s)" % (self.asked, what))
        v = self.oracle.pop(0)
        self.trace.append((what, v))
        return v

    # -- values -----------------------------------------------------------------------------------
    def span_struct(self, path):
        adt = None
        for a in self.c.items["adts"]:
            if a["path"] == path:
                adt = a
        if adt is None:
            raise Unsupported("no layout facts for %s" % path)
        return adt

    def call_fn(self, path, args, depth):
        if depth > 6:
            raise Unsupported("helper nesting too deep at %s" % path)
        b = self.c.hir.get(path)
        if b is None:
            raise Unsupported("no body for %s" % path)
        env = {}
        if len(b["params"]) != len(args):
            raise Unsupported("arity of %s" % path)
        for (pat, _ty), a in zip(b["params"], args):
            if pat[0] != "pbind":
                raise Unsupported("parameter pattern of %s" % path)
            env[pat[1]] = a
        try:
            return self.ev(b["body"], env, depth + 1)
        except _Return as r:
            return r.v

    def method(self, path, name, recv, args, env, depth):
        rv = self.ev(recv, env, depth)
        av = [self.ev(a, env, depth) for a in args]
        # clones / derefs are identities for the model
        if name in ("clone", "deref", "as_ref", "borrow"):
            return rv
        if isinstance(rv, tuple) and rv[0] == "node":
            if name == "as_ptr":
                return ("ptrof", rv)
            if name == "offset":
                return self.make_offset(rv[1])
            if name == "green":
                return ("green", rv)
            if name == "children" or name == "children_with_tokens":
                raise Unsupported("red-level child iteration (%s) is outside the interpreted fragment" % name)
            raise Unsupported("SyntaxNode::%s" % name)
        if isinstance(rv, tuple) and rv[0] == "green":
            if name == "children":
                return ("children", rv[1])
            raise Unsupported("GreenNode::%s on the searched node" % name)
        if isinstance(rv, tuple) and rv[0] == "gchild":
            if name == "text_length":
                return rv[1]
            raise Unsupported("GreenNode::%s on a child" % name)
        if isinstance(rv, tuple) and rv[0] == "toktext":
            if name == "len":
                return rv[1]
            raise Unsupported("token text .%s" % name)
        if path and path.startswith("dora_parser::") and path in self.c.hir and \
                isinstance(rv, (int, bool, tuple)):
            return self.call_fn(path, [rv] + av, depth)
        raise Unsupported("method %s" % (path or name))

    def make_offset(self, v):
        adt = None
        for a in self.c.items["adts"]:
            if a["path"].endswith("::TextOffset"):
                adt = a
        if adt is None:
            raise Unsupported("TextOffset")
        f = adt["variants"][0]["fields"]
        if len(f) != 1:
            raise Unsupported("TextOffset shape")
        return ("struct", adt["path"], {f[0]["name"]: v})

    # -- expressions ------------------------------------------------------------------------------
    def ev(self, e, env, depth=0):
        if e is None:
            return ("unit",)
        k = e[0]
        if k == "lit":
            if e[1] in ("int", "bool"):
                return e[2] if not isinstance(e[2], str) else (int(e[2]) if e[1] == "int" else e[2] == "true")
            return ("lit", e[2])
        if k == "local":
            if e[1] not in env:
                raise Unsupported("unbound local %s" % e[1])
            return env[e[1]]
        if k == "def":
            if e[1] == "ctor" and e[2].endswith("Option::None"):
                return ("none",)
            return ("def", e[2])
        if k == "block":
            env2 = env if depth == 0 and False else env
            for s in e[1]:
                self.ev(s, env2, depth)
            return self.ev(e[2], env2, depth) if e[2] is not None else ("unit",)
        if k == "let":
            pat, init = e[1], e[2]
            v = self.ev(init, env, depth) if init is not None else ("uninit",)
            if pat[0] != "pbind":
                raise Unsupported("let pattern")
            env[pat[1]] = v
            if not self.in_loop:
                self.loop_outer.add(pat[1])
            return ("unit",)
        if k == "addr" or (k == "un" and e[1] == "Deref"):
            return self.ev(e[2], env, depth)
        if k == "cast":
            return self.ev(e[1], env, depth)
        if k == "field":
            b = self.ev(e[1], env, depth)
            if isinstance(b, tuple) and b[0] == "struct":
                if e[2] not in b[2]:
                    raise Unsupported("field %s" % e[2])
                return b[2][e[2]]
            if isinstance(b, tuple) and b[0] == "token" and e[2] == "text":
                return ("toktext", b[1])
            raise Unsupported("field %s of %r" % (e[2], b[:1] if isinstance(b, tuple) else b))
        if k == "struct":
            return ("struct", e[1][2], {f: self.ev(x, env, depth) for f, x in e[2]})
        if k == "un" and e[1] == "Not":
            v = self.ev(e[2], env, depth)
            if not isinstance(v, bool):
                raise Unsupported("! of non-bool")
            return not v
        if k == "bin":
            op = e[1]
            if op == "And":
                l = self.truth(e[2], env, depth)
                return l and self.truth(e[3], env, depth)
            if op == "Or":
                l = self.truth(e[2], env, depth)
                return l or self.truth(e[3], env, depth)
            a, b = self.ev(e[2], env, depth), self.ev(e[3], env, depth)
            if op in ("Eq", "Ne") and (isinstance(a, tuple) or isinstance(b, tuple)):
                tags = {x[0] for x in (a, b) if isinstance(x, tuple)}
                if tags <= {"ptrof", "needle"} and len(tags) == 2:
                    v = self.ask("node.as_ptr() == needle")
                    return v if op == "Eq" else not v
                raise Unsupported("comparison of %r" % sorted(tags))
            if not (isinstance(a, int) and isinstance(b, int)) or isinstance(a, bool) or isinstance(b, bool):
                raise Unsupported("arithmetic on non-integers (%s)" % op)
            if op == "Add":
                return a + b
            if op in ("Lt", "Le", "Gt", "Ge", "Eq", "Ne"):
                return {"Lt": a < b, "Le": a <= b, "Gt": a > b, "Ge": a >= b, "Eq": a == b, "Ne": a != b}[op]
            # anything but comparisons and start+len sums breaks the order-type argument
            raise Unsupported("operator %s on offsets: the ordering argument covers comparisons and sums only" % op)
        if k == "if":
            c = e[1]
            if c[0] == "letx":
                v = self.ev(c[2], env, depth)
                m = self.match_pat(c[1], v, env)
                br = e[2] if m else e[3]
            else:
                br = e[2] if self.truth(c, env, depth) else e[3]
            return self.ev(br, env, depth) if br is not None else ("unit",)
        if k == "match":
            v = self.ev(e[1], env, depth)
            for pat, guard, body in e[2]:
                if guard is not None:
                    raise Unsupported("match guard")
                if self.match_pat(pat, v, env):
                    return self.ev(body, env, depth)
            raise Unsupported("no match arm for %r" % (v[:2] if isinstance(v, tuple) else v,))
        if k == "macro":
            if e[1] == "desugar:ForLoop":
                return self.for_loop(e[2], env, depth)
            if e[1] in ("debug_assert!", "assert!", "debug_assert_eq!", "assert_eq!", "$crate::assert!",
                        "$crate::assert_eq!"):
                return ("unit",)      # an assertion that fires is a different defect class (C06.R4); not modelled here
            return self.ev(e[2], env, depth)
        if k == "call":
            cal = e[2]
            if cal[0] == "def" and cal[1] == "ctor":
                p = cal[2]
                args = [self.ev(a, env, depth) for a in e[3]]
                if p.endswith("Option::Some"):
                    return ("some", args[0])
                if p.endswith("::TextOffset"):
                    return self.make_offset(args[0])
                return ("ctor", p, args)
            if cal[0] == "def" and cal[1] == "fn":
                p = cal[2]
                if p == self.fn_path:
                    args = [self.ev(a, env, depth) for a in e[3]]
                    if not (isinstance(args[0], tuple) and args[0][0] == "node"):
                        raise Unsupported("recursive call on something that is not a freshly wrapped child")
                    self.rec_calls.append(args[0][1])
                    return ("some", ("recresult",)) if self.ask("the recursive search finds the node") else ("none",)
                args = [self.ev(a, env, depth) for a in e[3]]
                if p.endswith("SyntaxNode::new"):
                    off = args[1]
                    if isinstance(off, tuple) and off[0] == "struct":
                        off = list(off[2].values())[0]
                    if not isinstance(off, int):
                        raise Unsupported("offset of the wrapped child")
                    return ("node", off, "child")
                if p.startswith("dora_parser::") and p in self.c.hir:
                    return self.call_fn(p, args, depth)
                raise Unsupported("call of %s" % p)
            raise Unsupported("indirect call")
        if k == "mcall":
            return self.method(e[2], e[3], e[4], e[5], env, depth)
        if k == "assign":
            tgt = e[1]
            v = self.ev(e[2], env, depth)
            if tgt[0] != "local":
                raise Unsupported("assignment target")
            if self.in_loop and tgt[1] in self.loop_outer and isinstance(v, tuple) and v[0] == "node":
                self.commits.append(v[1])
            env[tgt[1]] = v
            return ("unit",)
        if k == "assignop":
            tgt = e[2]
            if tgt[0] != "local" or e[1] != "AddAssign":
                raise Unsupported("compound assignment")
            a, b = env.get(tgt[1]), self.ev(e[3], env, depth)
            if not (isinstance(a, int) and isinstance(b, int)):
                raise Unsupported("+= on non-integers")
            env[tgt[1]] = a + b
            return ("unit",)
        if k == "ret":
            raise _Return(self.ev(e[1], env, depth) if e[1] is not None else ("unit",))
        if k == "break":
            raise _Break()
        if k == "continue":
            raise _Continue()
        if k == "loop":
            # an outer `loop { .. }` around the child iteration (committed-descent form): one pass is interpreted
            try:
                self.ev(e[2], env, depth)
            except _Break:
                return ("unit",)
            raise Unsupported("loop body completed without break/continue/return")
        if k == "tup" and not e[1]:
            return ("unit",)
        raise Unsupported("expression kind %s" % k)

    def truth(self, e, env, depth):
        v = self.ev(e, env, depth)
        if not isinstance(v, bool):
            raise Unsupported("condition is not a boolean")
        return v

    def match_pat(self, pat, v, env):
        k = pat[0]
        if k == "pwild":
            return True
        if k == "pbind":
            env[pat[1]] = v
            return True
        if k in ("pts", "pstruct", "ppath"):
            p = pat[1][2]
            subs = pat[2] if k != "ppath" else []
            if k == "pstruct":
                subs = [s for (_f, s) in subs]
            if p.endswith("Option::Some"):
                return isinstance(v, tuple) and v[0] == "some" and self.match_pat(subs[0], v[1], env)
            if p.endswith("Option::None"):
                return isinstance(v, tuple) and v[0] == "none"
            if isinstance(v, tuple) and v[0] == "elem":
                if last(p) != v[1]:
                    return False
                payload = ("gchild", v[2]) if v[1] == "Node" else ("token", v[2])
                return self.match_pat(subs[0], payload, env) if subs else True
            raise Unsupported("pattern %s on %r" % (p, v[:1] if isinstance(v, tuple) else v))
        raise Unsupported("pattern kind %s" % k)

    def for_loop(self, m, env, depth):
        # match into_iter(X) { iter => loop { match next(&mut iter) { None => break, Some(p) => BODY } } }
        try:
            it = m[1][3][0]
            arm = m[2][0]
            loop = arm[2]
            inner = loop[2][1][0]
            arms = inner[2]
        except (IndexError, TypeError):
            raise Unsupported("for-loop desugaring shape")
        itv = self.ev(it, env, depth)
        if not (isinstance(itv, tuple) and itv[0] == "children"):
            raise Unsupported("the loop does not iterate over the searched node's green children")
        some = [a for a in arms if a[0][0] in ("pts", "pstruct") and a[0][1][2].endswith("Option::Some")]
        if len(some) != 1:
            raise Unsupported("for-loop desugaring arms")
        pat = some[0][0]
        sub = pat[2][0] if pat[0] == "pts" else pat[2][0][1]
        self.in_loop = True
        self.match_pat(sub, ("elem", self.elem[0], self.elem[1]), env)
        snapshot = {k: v for k, v in env.items() if isinstance(v, int) and not isinstance(v, bool)}
        try:
            self.ev(some[0][2], env, depth)
            kind = "next"
        except _Continue:
            kind = "next"
        except _Break:
            kind = "exit"
        # which integer local advanced?  (the running offset)
        adv = {k: env[k] - v for k, v in snapshot.items() if k in env and isinstance(env[k], int) and env[k] != v
               and k in self.loop_outer}
        self.advance = adv
        raise _IterDone(kind)


def evaluate(crate, fn_path, elem, cs, nfields, oracle):
    b = crate.hir[fn_path]
    it = Interp(crate, fn_path, elem, cs, nfields, oracle)
    env = {}
    params = b["params"]
    if len(params) != 2:
        raise Unsupported("the search function does not take (node, pointer)")
    for (pat, ty) in params:
        if pat[0] != "pbind":
            raise Unsupported("parameter pattern")
        if ty.endswith("SyntaxNodePtr"):
            env[pat[1]] = ("needle",)
            it.needle_name = pat[1]
        elif ty.endswith("SyntaxNode"):
            env[pat[1]] = ("node", cs, "self")
        else:
            raise Unsupported("parameter type %s" % ty)
        it.loop_outer.add(pat[1])
    # the needle's span: SyntaxNodePtr::span(needle) is modelled by its field of type Span
    it_span = nfields
    orig_method = it.method

    def method(path, name, recv, args, env_, depth):
        rv = None
        if recv[0] == "local" and env_.get(recv[1]) == ("needle",):
            if name == "span":
                return it_span
            raise Unsupported("SyntaxNodePtr::%s" % name)
        return orig_method(path, name, recv, args, env_, depth)
    it.method = method
    out = {"kind": None, "ret": None}
    try:
        v = it.ev(b["body"], env, 0)
        out["kind"], out["ret"] = "fellthrough", v
    except _Return as r:
        out["kind"], out["ret"] = "return", r.v
    except _IterDone as d:
        out["kind"] = d.kind
    out["rec"] = it.rec_calls
    out["commits"] = it.commits
    out["advance"] = getattr(it, "advance", {})
    out["unused_oracle"] = len(it.oracle)
    out["trace"] = it.trace
    return out


def find_search_fn(c):
    by_ptr = c.hir_fn("ast::File::syntax_by_ptr")
    if by_ptr is None:
        return None
    found = []

    def walk(e):
        if isinstance(e, list):
            if e and e[0] == "call" and isinstance(e[2], list) and e[2][:2] == ["def", "fn"]:
                p = e[2][2]
                f = c.fn(p)
                if f is not None and "Option<" in (f.get("output") or "") and "SyntaxNode" in f["output"]:
                    found.append(p)
            for x in e:
                walk(x)
    walk(by_ptr["body"])
    return found[0] if found else None


def span_values(c):
    """All needle spans (as Span structs) with small field values, with start()/end() evaluated from Span's own
    methods."""
    adt = c.adt("span::Span")
    if adt is None:
        return None
    fields = [f["name"] for f in adt["variants"][0]["fields"]]
    if len(fields) != 2:
        return None
    out = []
    probe = Interp(c, "", ("Node", 0), 0, None, [])
    for a in range(0, 7):
        for b in range(0, 7):
            sv = ("struct", adt["path"], {fields[0]: a, fields[1]: b})
            try:
                s = probe.call_fn(adt["path"] + "::start", [sv], 0)
                e = probe.call_fn(adt["path"] + "::end", [sv], 0)
            except Unsupported:
                return None
            if isinstance(s, int) and isinstance(e, int) and 0 <= s <= e <= 9:
                out.append((sv, s, e))
    return out


def describe(cs, ce, ns, ne):
    pts = sorted({cs, ce, ns, ne})
    names = {"child.start": cs, "child.end": ce, "needle.start": ns, "needle.end": ne}
    groups = []
    for p in pts:
        groups.append("=".join(sorted(n for n, v in names.items() if v == p)))
    return " < ".join(groups)


def run(chk, c):
    r = chk.rule("C06.R7", "the search behind File::syntax_by_ptr finds every node of the tree again — decided by "
                           "interpreting its comparisons on every ordering of child/needle start/end (empty nodes "
                           "included): containing children are searched, earlier siblings neither end nor capture "
                           "the search, the running offset advances by each element's length")
    fn = find_search_fn(c)
    if not r.anchor("search function whose result File::syntax_by_ptr expects", fn):
        return
    where = "%s:%d" % (c.hir[fn]["file"], c.hir[fn]["line"])
    spans = span_values(c)
    if not r.anchor("Span layout and its start()/end() helpers", spans):
        return

    orderings = set()
    n_eval = 0
    bad = {}
    try:
        # E: the node itself
        sv, ns, ne = spans[0]
        res = evaluate(c, fn, ("Node", 1), 0, sv, [True, False, False])
        r.instance("%s:self-check" % fn, sample={"when": "node.as_ptr() == needle", "result": str(res["ret"])[:60]})
        if not (res["kind"] == "return" and isinstance(res["ret"], tuple) and res["ret"][0] == "some" and
                isinstance(res["ret"][1], tuple) and res["ret"][1][0] == "node" and res["ret"][1][2] == "self"):
            r.violation("%s:self:not-returned" % fn, "the search does not answer Some(node) when the node it is given "
                        "has the needle's pointer", where)
        for (sv, ns, ne) in spans:
            for cs in range(0, 5):
                for ln in range(0, 4):
                    ce = cs + ln
                    for ek in ("Node", "Token"):
                        contains = ek == "Node" and cs <= ns and ne <= ce
                        before = ce <= ns
                        if not (contains or before):
                            continue
                        for rec_answer in (False, True):
                            # oracle: [as_ptr == needle (False: not the node itself), recursive result, spare]
                            res = evaluate(c, fn, (ek, ln), cs, sv, [False, rec_answer, False])
                            n_eval += 1
                            o = describe(cs, ce, ns, ne)
                            orderings.add((ek, o))
                            rec_here = [x for x in res["rec"] if x == cs]
                            com_here = [x for x in res["commits"] if x == cs]
                            wrong_off = [x for x in res["rec"] + res["commits"] if x != cs]
                            asked_rec = any(w.startswith("the recursive") for w, _ in res["trace"])
                            rec_some = any(w.startswith("the recursive") and v for w, v in res["trace"])
                            if wrong_off:
                                bad.setdefault(("child-wrapped-at-wrong-offset", ek, o), (cs, ce, ns, ne))
                            if contains and not rec_here and not com_here:
                                bad.setdefault(("containing-child-not-searched", ek, o), (cs, ce, ns, ne))
                            if before:
                                if res["kind"] == "exit" or (res["kind"] == "return" and not rec_some):
                                    bad.setdefault(("search-ends-at-earlier-sibling", ek, o), (cs, ce, ns, ne))
                                if com_here and not contains:
                                    bad.setdefault(("committed-to-earlier-sibling", ek, o), (cs, ce, ns, ne))
                                if com_here and contains:
                                    # empty needle at the child's end: the needle may be inside the child or its next
                                    # sibling — a committed descent cannot serve both
                                    bad.setdefault(("committed-descent-cannot-backtrack", ek, o), (cs, ce, ns, ne))
                            if res["kind"] == "next":
                                adv = res["advance"]
                                if len(adv) != (1 if ln else 0) and not (ln == 0 and not adv):
                                    bad.setdefault(("offset-not-advanced-by-length", ek, o), (cs, ce, ns, ne))
                                elif ln and list(adv.values())[0] != ln:
                                    bad.setdefault(("offset-not-advanced-by-length", ek, o), (cs, ce, ns, ne))
                            if asked_rec and rec_some and not (res["kind"] == "return" and res["ret"] ==
                                                               ("some", ("recresult",))):
                                bad.setdefault(("found-node-not-returned", ek, o), (cs, ce, ns, ne))
                            if asked_rec and not rec_some and contains and res["kind"] not in ("next",):
                                bad.setdefault(("no-next-sibling-after-empty-search", ek, o), (cs, ce, ns, ne))
    except Unsupported as e:
        r.violation("%s:not-understood" % fn, "the search function is outside the interpreted fragment (%s) — nothing "
                    "is decided about lookup totality" % e, where)
        k, m, w = r.violations[-1]
        r.violations[-1] = ("ANALYSIS:" + k, m, w)
        return
    for (ek, o) in sorted(orderings):
        r.instance("%s:%s:%s" % (fn, ek, o), sample={"element": ek, "ordering": o})
    r.floor("orderings of (child.start, child.end, needle.start, needle.end) with an obligation", len(orderings), 20)
    r.observe("%d concrete evaluations over %d order types" % (n_eval, len(orderings)))
    seen = set()
    for (what, ek, o), (cs, ce, ns, ne) in sorted(bad.items()):
        key = "%s:%s:%s" % (fn, ek.lower(), what)
        if key in seen:
            continue
        seen.add(key)
        alls = sorted(oo for (w2, e2, oo) in bad if w2 == what and e2 == ek)
        r.violation(key, "%s: for a %s child with %s (e.g. child=[%d,%d) needle=[%d,%d]%s) — a node the parser can "
                    "produce (error recovery closes empty nodes) is not found again and File::syntax_by_ptr panics "
                    "'node not found for pointer'; orderings affected: %s"
                    % (what.replace("-", " "), ek.lower(), o, cs, ce, ns, ne,
                       ", an empty needle" if ns == ne else "", "; ".join(alls[:4])), where)

"""C18.R4 helper: summarise the Rust side of the wire (HIR facts) into codec signature trees (c18_wire_ir).

The stream primitives are not listed: a method of the buffer/reader type is a primitive of width n when its own body
moves exactly n bytes in a straight line (`Vec<u8>::push` = 1, a byteorder `write_uN` = N/8, `self.<cursor> += n` = n,
calls of other methods of the same type recursively); any other method that touches the stream is summarised like a
codec function.
"""
import re

import hirq
from hirq import def_path, is_node, last, strip
from rules import tables
from rules import c18_wire_ir as IR

WRITER_TY = "dora_compiler::wire::ByteBuffer"
READER_TY = "dora_compiler::wire::ByteReader"
CRATES = ("dora_boots_compiler", "dora_compiler")
CONST_CRATES = ("dora_bytecode", "dora_compiler", "dora_boots_compiler")
# byteorder is an external crate (not repository code): WriteBytesExt::write_<int>() appends size_of::<int>() bytes
BYTEORDER = re.compile(r"^byteorder::.*::write_([ui])(8|16|32|64|128)$")
PANICS = ("core::panicking::", "std::rt::begin_panic", "core::option::expect_failed", "core::result::unwrap_failed",
          "core::option::unwrap_failed", "std::process::abort", "std::process::exit")
PASS_ITER = {"iter", "into_iter", "bytes", "as_bytes", "clone", "as_ref", "as_slice", "to_vec", "iter_mut", "cloned",
             "copied", "as_str", "deref"}
LEN_NAMES = {"len", "size", "count"}
MAX_INLINE = 4


class Val:
    __slots__ = ("prim", "const", "lenof", "variant", "table", "cmp", "isbool", "note")

    def __init__(self, prim=None, const=None, lenof=None, variant=None, table=None, cmp=None, isbool=False,
                 note=None):
        self.prim = prim
        self.const = const
        self.lenof = lenof
        self.variant = variant
        self.table = table
        self.cmp = cmp              # (prim id, [(value, cname)], positive?)
        self.isbool = isbool
        self.note = note

    def derived(self):
        return Val(self.prim, self.const, self.lenof, None, self.table, None, self.isbool, self.note)


NONE = Val()


def coll_key(e):
    """canonical text of the collection an expression iterates over / takes the length of"""
    e = strip(e)
    if not is_node(e):
        return "?"
    k = e[0]
    if k == "cast":
        return coll_key(e[1])
    if k == "local":
        return e[1]
    if k == "field":
        return coll_key(e[1]) + "." + e[2]
    if k == "mcall":
        nm = e[3]
        if not e[5]:
            if nm in PASS_ITER:
                return coll_key(e[4])
            if nm.endswith("_iter"):
                return coll_key(e[4]) + "." + nm[:-5]
            return coll_key(e[4]) + "." + nm + "()"
        return coll_key(e[4]) + "." + nm + "(..)"
    if k == "index":
        return coll_key(e[1]) + "[..]"
    return hirq.render(e)


def len_key(e):
    e = strip(e)
    while is_node(e) and e[0] == "cast":
        e = strip(e[1])
    if is_node(e) and e[0] == "mcall" and not e[5]:
        nm = e[3]
        if nm in LEN_NAMES:
            return coll_key(e[4])
        for suf in ("_len", "_size", "_count"):
            if nm.endswith(suf):
                return coll_key(e[4]) + "." + nm[:-len(suf)]
    return None


class RsSide:
    def __init__(self, F):
        self.F = F
        self.crates = [F.crate(n) for n in CRATES]
        self.const_idx = {}
        for n in CONST_CRATES:
            try:
                c = F.crate(n)
            except Exception:                                   # noqa: BLE001
                continue
            for k in c.items.get("consts", []):
                self.const_idx.setdefault(k["path"], k)
        self.hir = {}
        self.fn_items = {}
        for c in self.crates:
            for p, b in c.hir.items():
                self.hir.setdefault(p, (c, b))
            for f in c.items["fns"]:
                self.fn_items.setdefault(f["path"], f)
        self.methods = {}           # path -> ('prim', w, cls, note) | ('fn', key) | ('none',)
        self.fns = {}               # key -> IR.Fn
        self.conv = {}
        self.tablefns = {}
        self.busy = set()

    # ------------------------------------------------------------------ discovery
    def stream_param(self, path):
        """(index, name, side) of the stream parameter of a free codec function"""
        if path not in self.hir:
            return None
        if path.startswith(WRITER_TY + "::") or path.startswith(READER_TY + "::"):
            return None
        b = self.hir[path][1]
        for i, (pat, ty) in enumerate(b["params"]):
            ty = ty or ""
            side = "w" if WRITER_TY in ty else ("r" if READER_TY in ty else None)
            if side and ty.startswith("&") and is_node(pat) and pat[0] == "pbind":
                return (i, pat[1], side)
        return None

    def codec_functions(self):
        return sorted(p for p in self.hir if self.stream_param(p))

    def key(self, path):
        return ("rs", path)

    # ------------------------------------------------------------------ constants / tables
    def const(self, path):
        k = self.const_idx.get(path)
        if k is not None and isinstance(k.get("value"), int) and not isinstance(k.get("value"), bool):
            return (k["value"], last(path))
        m = hirq_core_num(path)
        return m

    def conversion(self, variant_path):
        """value an enum variant converts to through its From<Enum> for <int> impl (rules/tables.py)"""
        enum_path = variant_path.rsplit("::", 1)[0]
        if enum_path not in self.conv:
            tab = None
            cname = enum_path.split("::", 1)[0]
            try:
                c = self.F.crate(cname)
                conv = tables.find_conversion_fns(c, enum_path)
                if len(conv["encode"]) == 1:
                    t = tables.encode_table(c, conv["encode"][0],
                                            const_crates=[self.F.crate(n) for n in CONST_CRATES])
                    if t.found and not t.problems:
                        tab = {r["variant"]: (r["value"], r["cname"]) for r in t.rows if r.get("value") is not None}
            except Exception:                                   # noqa: BLE001
                tab = None
            self.conv[enum_path] = tab
        tab = self.conv[enum_path]
        return tab.get(variant_path) if tab else None

    def table_fn(self, path):
        """rows of a plain `match param { Variant => CONST }` function (e.g. an architecture -> tag table)"""
        if path not in self.tablefns:
            rows = None
            if path in self.hir:
                c, b = self.hir[path]
                out = (self.fn_items.get(path) or {}).get("output")
                if out in tables.INT_TYPES and len(b["params"]) == 1:
                    t = tables.encode_table(c, path, const_crates=[self.F.crate(n) for n in CONST_CRATES])
                    if t.found and not t.problems and t.rows:
                        rows = t.rows
            self.tablefns[path] = rows
        return self.tablefns[path]

    # ------------------------------------------------------------------ summaries
    def method(self, path):
        if path in self.methods:
            return self.methods[path]
        if path not in self.hir or path in self.busy:
            return ("none",)
        self.busy.add(path)
        c, b = self.hir[path]
        side = "w" if path.startswith(WRITER_TY + "::") else "r"
        w = Walk(self, path, b, "self", side, is_method=True)
        seq = w.run()
        self.busy.discard(path)
        if not seq:
            res = ("none",)
        elif all(e["t"] == "prim" and e["const"] is None for e in seq) and not w.params_used_as_len:
            width = sum(e["w"] for e in seq)
            item = self.fn_items.get(path) or {}
            tys = list(item.get("inputs") or [])[1:] + [item.get("output") or ""]
            cls = "bool" if width == 1 and "bool" in tys else IR.CLS_OF_WIDTH.get(width, "b%d" % width)
            res = ("prim", width, cls, "checked" if w.has_assert else None)
        else:
            key = self.key(path)
            self.fns[key] = IR.Fn(key, last(path), "rust", side, seq, "%s:%s" % (b.get("file"), b.get("line")),
                                  owner=b.get("file"))
            res = ("fn", key)
        self.methods[path] = res
        return res

    def function(self, path):
        key = self.key(path)
        if key in self.fns:
            return self.fns[key]
        sp = self.stream_param(path)
        if sp is None:
            return None
        c, b = self.hir[path]
        w = Walk(self, path, b, sp[1], sp[2])
        seq = w.run()
        f = IR.Fn(key, last(path), "rust", sp[2], seq, "%s:%s" % (b.get("file"), b.get("line")), owner=b.get("file"))
        self.fns[key] = f
        return f

    def stream_of_local(self, path, local, side):
        """summary of what a function does to a stream it owns as a local (root messages)"""
        c, b = self.hir[path]
        w = Walk(self, path, b, local, side)
        return w.run()


CONVERSIONS = {"into", "try_into", "unwrap", "index", "index_as_u32", "to_bits", "to_u32", "clone", "as_ref",
               "expect", "len", "from"}


def expr_idents(e, out=None):
    """identifiers naming the operand: locals, fields, accessor methods (conversions dropped)"""
    if out is None:
        out = []
    if not is_node(e):
        return out
    k = e[0]
    if k == "local":
        out.append(e[1])
    elif k == "field":
        expr_idents(e[1], out)
        out.append(e[2])
    elif k == "mcall":
        expr_idents(e[4], out)
        if e[3] not in CONVERSIONS:
            out.append(e[3])
        for a in e[5]:
            if not (is_node(a) and a[0] == "closure"):
                expr_idents(a, out)
    elif k == "call":
        for a in e[3]:
            expr_idents(a, out)
    elif k in ("lit", "def", "closure"):
        pass
    else:
        for ch in e[1:]:
            if is_node(ch):
                expr_idents(ch, out)
            elif isinstance(ch, list):
                for x in ch:
                    if is_node(x):
                        expr_idents(x, out)
    return out


def hirq_core_num(path):
    m = re.match(r"^core::num::<impl ([ui])(8|16|32|64|128|size)>::(MAX|MIN)$", path or "")
    if not m:
        return None
    bits = 64 if m.group(2) == "size" else int(m.group(2))
    signed = m.group(1) == "i"
    if m.group(3) == "MAX":
        return ((1 << (bits - 1)) - 1 if signed else (1 << bits) - 1, last(path))
    return (-(1 << (bits - 1)) if signed else 0, last(path))


class Walk:
    def __init__(self, S, path, b, stream, side, is_method=False, depth=0):
        self.S = S
        self.path = path
        self.b = b
        self.stream = stream
        self.side = side
        self.is_method = is_method
        self.pending = None
        self.has_assert = False
        self.params_used_as_len = False
        self.depth = depth

    def run(self):
        env = {}
        for (pat, ty) in self.b["params"]:
            if is_node(pat) and pat[0] == "pbind":
                env[pat[1]] = Val(note=pat[1], isbool=(ty == "bool"))
        out = []
        self.ev(self.b["body"], env, out)
        return out

    # ------------------------------------------------------------------ helpers
    def is_stream(self, e):
        e = strip(e)
        return is_node(e) and e[0] == "local" and e[1] == self.stream

    def mentions_stream(self, e):
        for n in hirq.walk(e):
            if n[0] == "local" and n[1] == self.stream:
                return True
        return False

    def bind(self, pat, v, env):
        if not is_node(pat):
            return
        if pat[0] == "pbind":
            env[pat[1]] = v
        elif pat[0] == "pref":
            self.bind(pat[1], v, env)
        elif pat[0] in ("ptuple", "por"):
            for p in pat[1]:
                self.bind(p, NONE, env)
        elif pat[0] == "pts":
            for p in pat[2]:
                self.bind(p, NONE, env)
        elif pat[0] == "pstruct":
            for _f, p in pat[2]:
                self.bind(p, NONE, env)

    def emit_prim(self, out, w, cls, arg, line, note=None, names=None):
        const = arg.const if arg is not None else None
        if cls == "bool" and const is not None:
            const = (int(bool(const[0])), const[1] or ("true" if const[0] else "false"))
        p = IR.prim(w, cls, const=const, note=note or (arg.note if arg is not None else None), line=line,
                    lenof=arg.lenof if arg is not None else None, names=names or ())
        out.append(p)
        if arg is not None and arg.table:
            arms = [{"vals": [(r["value"], r["cname"])] if r.get("value") is not None else [],
                     "variant": last(r["variant"]), "seq": [], "div": bool(r.get("panics")), "line": line}
                    for r in arg.table]
            out.append(IR.switch(p["id"], arms, None, line))
        return p

    # ------------------------------------------------------------------ branches
    def arm(self, body, env, pre=None):
        seq = []
        env2 = dict(env)
        if pre:
            pre(env2)
        v = self.ev(body, env2, seq) if body is not None else NONE
        st = self.pending or "fall"
        self.pending = None
        return seq, st, v

    def generic_branch(self, arms, out, line, what):
        if IR.generic_branch(arms, out, line, what) == "div":
            self.pending = "div"

    # ------------------------------------------------------------------ expressions
    def ev(self, e, env, out):
        if not is_node(e):
            return NONE
        k = e[0]
        m = getattr(self, "ev_" + k, None)
        if m is not None:
            return m(e, env, out)
        vs = []
        for ch in e[1:]:
            if is_node(ch):
                vs.append(self.ev(ch, env, out))
            elif isinstance(ch, list):
                for x in ch:
                    if is_node(x):
                        vs.append(self.ev(x, env, out))
        return NONE

    def ev_lit(self, e, env, out):
        if e[1] == "int":
            return Val(const=(e[2], None))
        if e[1] == "bool":
            return Val(const=(1 if e[2] else 0, "true" if e[2] else "false"), isbool=True)
        return NONE

    def ev_local(self, e, env, out):
        return env.get(e[1], NONE)

    def ev_def(self, e, env, out):
        if e[1] == "const":
            c = self.S.const(e[2])
            return Val(const=c, note=last(e[2])) if c else Val(note=last(e[2]))
        if e[1] in ("ctor", "variant", "struct"):
            return Val(variant=e[2])
        return NONE

    def ev_macro(self, e, env, out):
        nm = e[1].rstrip("!").split("::")[-1]
        if nm in ("assert", "assert_eq", "assert_ne", "debug_assert", "debug_assert_eq", "debug_assert_ne"):
            self.has_assert = True
            sub = []
            self.ev(e[2], env, sub)
            self.pending = None
            out.extend(x for x in sub if x["t"] != "opaque")
            return NONE
        if nm in ("unreachable", "panic", "unimplemented", "todo", "panic_2021", "unreachable_2021"):
            self.pending = "div"
            return NONE
        if e[1] == "desugar:ForLoop":
            return self.ev_for(e, env, out)
        return self.ev(e[2], env, out)

    def ev_block(self, e, env, out):
        env2 = dict(env)
        v = NONE
        for st in e[1]:
            self.ev(st, env2, out)
            if self.pending is not None:
                return NONE
        if e[2] is not None:
            v = self.ev(e[2], env2, out)
        return v

    def ev_let(self, e, env, out):
        v = self.ev(e[2], env, out) if e[2] is not None else NONE
        if e[3] is not None and self.mentions_stream(e[3]):
            out.append(IR.opaque("let-else touching the stream", e[4] if len(e) > 4 else None))
        self.bind(e[1], v, env)
        if v.prim and self.side == "r" and is_node(e[1]) and e[1][0] == "pbind":
            IR.add_name(v.prim, e[1][1])
        return NONE

    def ev_letx(self, e, env, out):
        v = self.ev(e[2], env, out)
        self.bind(e[1], NONE, env)
        return Val()

    def ev_cast(self, e, env, out):
        v = self.ev(e[1], env, out)
        return v.derived() if v is not NONE else NONE

    def ev_addr(self, e, env, out):
        return self.ev(e[2], env, out)

    def ev_un(self, e, env, out):
        v = self.ev(e[2], env, out)
        if e[1] == "Deref":
            return v
        if e[1] == "Not" and v.cmp:
            return Val(cmp=(v.cmp[0], v.cmp[1], not v.cmp[2]))
        if e[1] == "Not" and v.prim and v.isbool:
            return Val(cmp=(v.prim, [(0, "false")], True))
        return NONE

    def ev_field(self, e, env, out):
        self.ev(e[1], env, out)
        return Val(note=e[2])

    def ev_index(self, e, env, out):
        self.ev(e[1], env, out)
        self.ev(e[2], env, out)
        return NONE

    def ev_tup(self, e, env, out):
        for x in e[1]:
            self.ev(x, env, out)
        return NONE

    ev_array = ev_tup

    def ev_struct(self, e, env, out):
        for _f, x in e[2]:
            fv = self.ev(x, env, out)
            if fv.prim and self.side == "r":
                IR.add_name(fv.prim, _f)
        if e[3] is not None:
            self.ev(e[3], env, out)
        p = def_path(e[1])
        if p and p.endswith("ops::range::Range"):
            vals = {f: x for f, x in e[2]}
            return Val(note="range")
        return Val(variant=p)

    def ev_bin(self, e, env, out):
        a = self.ev(e[2], env, out)
        b = self.ev(e[3], env, out)
        if e[1] in ("Eq", "Ne"):
            for x, y in ((a, b), (b, a)):
                if x.prim and y.const is not None and not x.cmp:
                    return Val(cmp=(x.prim, [y.const], e[1] == "Eq"), isbool=True)
        return NONE

    def ev_assign(self, e, env, out):
        self.ev(e[2], env, out)
        return NONE

    def ev_assignop(self, e, env, out):
        v = self.ev(e[3], env, out)
        # reader primitive: the cursor field of the stream object advances
        l = strip(e[2])
        if self.is_method and self.side == "r" and e[1] in ("AddAssign", "Add") and is_node(l) and l[0] == "field" \
                and self.is_stream(l[1]):
            if v.const is not None and isinstance(v.const[0], int) and v.const[0] > 0:
                out.append(IR.prim(v.const[0], IR.CLS_OF_WIDTH.get(v.const[0], "b%d" % v.const[0]), line=None))
            else:
                self.params_used_as_len = True
                out.append(IR.opaque("cursor advanced by a non-constant amount"))
        return NONE

    def ev_ret(self, e, env, out):
        v = self.ev(e[1], env, out) if e[1] is not None else NONE
        self.pending = "ret"
        return v

    def ev_break(self, e, env, out):
        self.pending = "brk"
        return NONE

    def ev_continue(self, e, env, out):
        self.pending = "cont"
        return NONE

    def ev_closure(self, e, env, out):
        if self.mentions_stream(e[3]):
            out.append(IR.opaque("a closure touches the stream"))
        return NONE

    def ev_loop(self, e, env, out):
        body = []
        self.ev(e[2], dict(env), body)
        self.pending = None
        if body:
            out.append(IR.opaque("a loop that is not a `for` over a collection or a counted range"))
        return NONE

    # ------------------------------------------------------------------ calls
    def ev_mcall(self, e, env, out):
        line, path, name, recv, args = e[1], e[2], e[3], e[4], e[5]
        if self.is_stream(recv) and path and (path.startswith(WRITER_TY + "::") or path.startswith(READER_TY + "::")):
            avs = [self.ev(a, env, out) for a in args]
            ms = self.S.method(path)
            if ms[0] == "prim":
                arg = avs[0] if avs else None
                note = hirq.render(args[0])[:60] if args else name
                names = expr_idents(args[0]) if (args and self.side == "w") else None
                p = self.emit_prim(out, ms[1], ms[2], arg, line, note=note, names=names)
                if ms[3]:
                    self.has_assert = True
                return Val(prim=p["id"], isbool=(ms[2] == "bool"), note=name)
            if ms[0] == "fn":
                out.append(IR.call(ms[1], last(path), line))
            return NONE
        # the raw primitives inside the stream type's own methods
        if self.is_method:
            r = strip(recv)
            on_self_field = is_node(r) and r[0] == "field" and self.is_stream(r[1])
            if on_self_field and self.side == "w":
                avs = [self.ev(a, env, out) for a in args]
                rty = e[6] if len(e) > 6 and e[6] else ""
                if path and path.endswith("Vec::<T, A>::push") and "Vec<u8>" in rty:
                    out.append(IR.prim(1, "u8", line=line))
                    return NONE
                bm = BYTEORDER.match(path or "")
                if bm:
                    n = int(bm.group(2)) // 8
                    out.append(IR.prim(n, IR.CLS_OF_WIDTH.get(n, "b%d" % n), line=line))
                    return NONE
                if name in ("extend", "extend_from_slice", "append", "insert", "write_all", "write"):
                    self.params_used_as_len = True
                    out.append(IR.opaque("variable amount of bytes appended (%s)" % name, line))
                    return NONE
                return NONE
        rv = self.ev(recv, env, out)
        avs = [self.ev(a, env, out) for a in args]
        for a in args:
            if is_node(a) and a[0] == "closure":
                pass
        if name in ("into", "try_into", "from") and rv.variant and not args:
            c = self.S.conversion(rv.variant)
            if c is not None:
                return Val(const=c, note=last(rv.variant))
        lk = len_key(e)
        if lk is not None:
            return Val(lenof=lk, note=hirq.render(e)[:60])
        if not args or all(a.prim is None for a in avs):
            return rv.derived() if rv is not NONE else NONE
        return NONE

    def ev_call(self, e, env, out):
        line, callee, args = e[1], e[2], e[3]
        path = def_path(callee) if is_node(callee) and callee[0] == "def" else None
        if path is None:
            self.ev(callee, env, out)
            for a in args:
                self.ev(a, env, out)
            return NONE
        if any(path.startswith(p) for p in PANICS):
            self.pending = "div"
            return NONE
        kind = callee[1]
        sp = self.S.stream_param(path)
        if sp is not None and sp[0] < len(args) and self.is_stream(args[sp[0]]):
            for i, a in enumerate(args):
                if i != sp[0]:
                    self.ev(a, env, out)
            out.append(IR.call(self.S.key(path), last(path), line))
            return NONE
        avs = [self.ev(a, env, out) for a in args]
        if kind in ("ctor", "variant", "struct"):
            inner = avs[0] if len(avs) == 1 else NONE
            if path.startswith("core::") or path.startswith("alloc::"):
                return inner.derived() if inner is not NONE else NONE
            v = inner.derived() if inner is not NONE else Val()
            v.variant = path
            return v
        if path in self.S.hir and sp is None:
            if any(a.prim for a in avs) and self.depth < MAX_INLINE:
                c, b = self.S.hir[path]
                sub = Walk(self.S, path, b, self.stream, self.side, depth=self.depth + 1)
                env2 = {}
                for (pat, _ty), v in zip(b["params"], avs):
                    sub.bind(pat, v, env2)
                v = sub.ev(b["body"], env2, out)
                if sub.pending == "div":
                    self.pending = "div"
                return v
            rows = self.S.table_fn(path) if self.side == "w" else None
            if rows:
                return Val(table=rows, note=last(path))
        if len(avs) == 1 and avs[0] is not NONE:
            return avs[0].derived()
        return NONE

    # ------------------------------------------------------------------ control flow
    def ev_if(self, e, env, out):
        line = None
        cv = self.ev(e[1], env, out)
        if self.pending is not None:
            return NONE
        if self.side == "r" and (cv.cmp or (cv.prim and cv.isbool)):
            return self.reader_if_chain(e, cv, env, out)
        arms = []
        s1, st1, v1 = self.arm(e[2], env)
        s2, st2, v2 = self.arm(e[3], env)
        if st1 == "div" and not s1 and e[3] is None:
            return NONE                     # assert-like
        arms = [(None, s1, st1), (None, s2, st2)]
        self.generic_branch(arms, out, line, "if %s" % hirq.render(e[1])[:40])
        return NONE

    def reader_if_chain(self, e, cv, env, out):
        """if <bool read> {..} else {..}   /   if tag == A {..} else if tag == B {..} else {..}"""
        def arm_of(body, vals):
            s, st, v = self.arm(body, env)
            return {"vals": vals, "variant": v.variant and last(v.variant), "seq": s, "div": st == "div",
                    "line": None}
        if cv.cmp is None or (len(cv.cmp[1]) == 1 and cv.cmp[1][0][1] in ("true", "false")):
            if cv.cmp is None:
                tag, tv = cv.prim, 1
            else:
                tag = cv.cmp[0]
                tv = cv.cmp[1][0][0] if cv.cmp[2] else 1 - cv.cmp[1][0][0]
            names = {1: "true", 0: "false"}
            out.append(IR.switch(tag, [arm_of(e[2], [(tv, names[tv])]), arm_of(e[3], [(1 - tv, names[1 - tv])])],
                                 None))
            return NONE
        tag = cv.cmp[0]
        arms = []
        cur, cur_cv = e, cv
        while True:
            pid, consts, positive = cur_cv.cmp
            if pid != tag or not positive:
                out.append(IR.opaque("an if-chain that is not a plain `tag == CONST` dispatch"))
                return NONE
            arms.append(arm_of(cur[2], list(consts)))
            nxt = cur[3]
            inner = strip_block(nxt)
            if is_node(inner) and inner[0] == "if":
                sub = []
                ncv = self.ev(inner[1], env, sub)
                if not sub and ncv.cmp and ncv.cmp[0] == tag:
                    cur, cur_cv = inner, ncv
                    continue
            s2, st2, _v2 = self.arm(nxt, env)
            default = {"seq": s2, "div": st2 == "div"}
            break
        out.append(IR.switch(tag, arms, default))
        return NONE

    def ev_match(self, e, env, out):
        sv = self.ev(e[1], env, out)
        if self.pending is not None:
            return NONE
        what = "match %s" % hirq.render(e[1])[:40]
        if sv.prim and self.side == "r":
            arms = []
            default = None
            for (pat, guard, body) in hirq.match_arms(e):
                if guard is not None:
                    out.append(IR.opaque("guarded arm in %s" % what))
                    return NONE
                vals = self.pat_values(pat)
                seq, st, v = self.arm(body, env)
                if vals is None:
                    default = {"seq": seq, "div": st == "div"}
                    continue
                if vals == "?":
                    out.append(IR.opaque("pattern of %s is not a constant" % what))
                    return NONE
                arms.append({"vals": vals, "variant": v.variant and last(v.variant), "seq": seq, "div": st == "div",
                             "line": None})
            out.append(IR.switch(sv.prim, arms, default))
            return NONE
        arms = []
        for (pat, guard, body) in hirq.match_arms(e):
            names = hirq.pat_paths(pat)
            label = last(names[0]) if names else None

            def pre(env2, pat=pat):
                self.bind(pat, NONE, env2)
            seq, st, _v = self.arm(body, env, pre)
            arms.append((label, seq, st))
        self.generic_branch(arms, out, None, what)
        return NONE

    def pat_values(self, pat):
        if not is_node(pat):
            return "?"
        k = pat[0]
        if k == "pwild" or (k == "pbind" and pat[2] is None):
            return None
        if k == "por":
            out = []
            for p in pat[1]:
                v = self.pat_values(p)
                if v is None or v == "?":
                    return "?"
                out += v
            return out
        if k == "ppath":
            p = def_path(pat[1])
            c = self.S.const(p) if p else None
            return [c] if c else "?"
        if k == "lit" and pat[1] == "int":
            return [(pat[2], None)]
        if k == "lit" and pat[1] == "bool":
            return [(1 if pat[2] else 0, "true" if pat[2] else "false")]
        return "?"

    def ev_for(self, e, env, out):
        m = hirq.unmacro(e[2])
        try:
            it_expr = m[1][3][0]
            loop = m[2][0][2]
            inner = loop[2][1][0]
            some = [a for a in inner[2] if hirq.pat_paths(a[0]) and last(hirq.pat_paths(a[0])[0]) == "Some"][0]
            pat = some[0][2][0][1]
            body = some[2]
        except (IndexError, TypeError):
            out.append(IR.opaque("for-loop desugaring not recognised"))
            return NONE
        line = e[3] if len(e) > 3 else None
        rng = hirq.unmacro(it_expr)
        length = None
        why = None
        if is_node(rng) and rng[0] == "struct" and (def_path(rng[1]) or "").endswith("ops::range::Range"):
            fields = dict((f, x) for f, x in rng[2])
            sv = self.ev(fields.get("start"), env, out) if fields.get("start") is not None else NONE
            ev_ = self.ev(fields.get("end"), env, out) if fields.get("end") is not None else NONE
            if ev_.prim and sv.const is not None and sv.const[0] == 0:
                length = ev_.prim
            else:
                why = "range bound %s is not a value read from the stream" % hirq.render(fields.get("end"))
        else:
            self.ev(it_expr, env, out)
            key = coll_key(it_expr)
            for x in reversed(out):
                if x["t"] == "prim" and x.get("lenof") == key:
                    length = x["id"]
                    break
            if length is None and out and out[-1]["t"] == "prim" and out[-1].get("lenof"):
                length = out[-1]["id"]       # the count directly in front of the loop
            if length is None:
                why = "no preceding element carries the length of `%s`" % key
        env2 = dict(env)
        self.bind(pat, NONE, env2)
        seq = []
        self.ev(body, env2, seq)
        st = self.pending
        self.pending = None
        if not seq:
            return NONE
        if st in ("ret",):
            out.append(IR.opaque("return inside a loop", line))
        out.append(IR.loop(length, seq, line, why))
        return NONE


def strip_block(e):
    e = hirq.unmacro(e)
    while is_node(e) and e[0] == "block" and not e[1] and e[2] is not None:
        e = hirq.unmacro(e[2])
    return e

"""C18.R4 helper: root messages — byte arrays that cross the Rust/Dora boundary outside the encode_/decode_ files.

A *stream owner* is a function that creates the buffer/reader itself (`ByteBuffer::new()`, `ByteReader::new(..)`,
`ByteWriter::new()`, a method returning a ByteWriter).  Owners are linked across the languages
  * through natives: a Dora owner passes `writer.to_array()` to an `@native` function / builds its reader from the
    native's result; the Rust body of that native is the function whose export symbol is mangle("<module>::<name>")
    (same derivation as C02.R7); its reader is the request, the buffer it (or a helper it calls) fills is the reply;
  * by identical function name for the entry points that Rust calls through a code address (`compile`, ...).
The owner's stream is summarised with the same walkers as the codec functions and compared with the same comparer.
"""
import re

import doraq
import hirq
from hirq import def_path, is_node, last, strip
from rules import c18_wire_ir as IR
from rules import c18_wire_rs as RS
from rules import c18_wire_dora as DS

OWNER_CRATE = "dora_boots_compiler"
PKG = "pkgs/boots/"


def mangle(name):
    # dora-symbol: SYMBOL_PREFIX + alphanumerics verbatim, every other byte as _XX (same as rules/c02_natives.mangle;
    # re-stated here so that this module does not import another property's rule file at load time)
    out = ["dora_"]
    for b in name.encode():
        ch = chr(b)
        out.append(ch if ch.isascii() and ch.isalnum() else "_%02X" % b)
    return "".join(out)


# ---------------------------------------------------------------------------------------------- Rust owners

def rs_owners(rs):
    out = []
    for path, (c, b) in sorted(rs.hir.items()):
        if c.name != OWNER_CRATE:
            continue
        for n in hirq.walk(b["body"]):
            if n[0] != "let" or not (is_node(n[1]) and n[1][0] == "pbind") or n[2] is None:
                continue
            init = strip(n[2])
            if is_node(init) and init[0] == "call":
                p = def_path(init[2])
                if p == RS.WRITER_TY + "::new":
                    out.append((path, n[1][1], "w"))
                elif p == RS.READER_TY + "::new":
                    out.append((path, n[1][1], "r"))
    return out


def rs_callees(rs, path, depth=2):
    seen = []

    def rec(p, d):
        if p not in rs.hir:
            return
        for cs in hirq.calls(rs.hir[p][1]["body"]):
            q = cs.callee
            if q and q in rs.hir and rs.hir[q][0].name == OWNER_CRATE and q not in seen and rs.stream_param(q) is None:
                seen.append(q)
                if d > 1:
                    rec(q, d - 1)
    rec(path, depth)
    return seen


def rs_root_fn(rs, path, local, side):
    c, b = rs.hir[path]
    w = RS.Walk(rs, path, b, local, side)
    seq = w.run()
    key = ("rs-root", path, local)
    return IR.Fn(key, "%s[%s]" % (last(path), local), "rust", side, seq, "%s:%s" % (b.get("file"), b.get("line")),
                 owner=b.get("file"))


# ---------------------------------------------------------------------------------------------- Dora owners

class DoraOwners:
    def __init__(self, D, ds):
        self.D = D
        self.ds = ds
        self.files = sorted(f for f in D if f.startswith(PKG) and "/tests" not in f)
        self.fns = {}
        self.natives = {}
        self.writer_factories = set()
        for f in self.files:
            for fn in doraq.functions(D[f], f):
                if "@native" in fn.mods:
                    mod = f[len(PKG):-len(".dora")].replace("/", "::")
                    self.natives[fn.name] = "%s::%s" % (mod, fn.name)
                if fn.return_type() == DS.WRITER_CLS and fn.name != "new":
                    self.writer_factories.add(fn.name)
                if fn.container is None and fn.body is not None:
                    self.fns.setdefault((f, fn.name), fn)

    def owners(self):
        """[(Fn, local, side, origin)] origin: ('native-result', N) | ('param', index) | ('fresh',)"""
        out = []
        for (f, name), fn in sorted(self.fns.items()):
            params = [p for p, _t in fn.params()]
            binds = {}
            for n in doraq.walk(fn.body):
                if n[0] != "LET":
                    continue
                pat = [c for c in doraq.nodes(n) if c[0] == "IDENT_PATTERN"]
                init = None
                seen_eq = False
                for c in doraq.kids(n):
                    if doraq.is_tok(c) and c[0] == "EQ":
                        seen_eq = True
                    elif doraq.is_node(c) and seen_eq and init is None:
                        init = c
                if not pat or init is None:
                    continue
                local = doraq.ident(pat[0])
                binds[local] = init
                t = doraq.text(init)
                if init[0] == "CALL_EXPR" and re.match(r"^(\w+::)*%s::new\(" % DS.READER_CLS, t):
                    args = DS.call_parts(init)[2]
                    origin = ("fresh",)
                    if args:
                        a = args[0]
                        if a[0] == "PATH_EXPR" and DS.seg_names(a)[0] in binds:
                            a = binds[DS.seg_names(a)[0]]
                        elif a[0] == "PATH_EXPR" and DS.seg_names(a)[0] in params:
                            origin = ("param", params.index(DS.seg_names(a)[0]))
                        if origin == ("fresh",) and a[0] == "CALL_EXPR":
                            cn = doraq.text(DS.call_parts(a)[0]).split("::")[-1]
                            if cn in self.natives:
                                origin = ("native-result", cn)
                    out.append((fn, local, "r", origin))
                elif init[0] == "CALL_EXPR" and re.match(r"^(\w+::)*%s::new\(" % DS.WRITER_CLS, t):
                    out.append((fn, local, "w", ("fresh",)))
                elif init[0] == "METHOD_CALL_EXPR" and doraq.ident(init) in self.writer_factories:
                    out.append((fn, local, "w", ("fresh",)))
        return out

    def writer_target(self, fn, local):
        """native that receives `<local>.to_array()` (directly or through one local)"""
        carriers = {local + ".to_array()"}
        for n in doraq.walk(fn.body):
            if n[0] == "LET":
                pat = [c for c in doraq.nodes(n) if c[0] == "IDENT_PATTERN"]
                if pat and re.sub(r"\s+", "", doraq.text(n)).endswith("=%s.to_array();" % local):
                    carriers.add(doraq.ident(pat[0]))
        hits = []
        for cs in doraq.calls(fn.body):
            if cs.recv is None and cs.name in self.natives:
                if any(re.sub(r"\s+", "", doraq.text(a)) in carriers for a in cs.args):
                    hits.append(cs.name)
        return hits

    def param_origin(self, fn, idx):
        """natives whose result is passed as argument `idx` to `fn` somewhere in the package"""
        hits = []
        for f in self.files:
            for cs in doraq.calls(self.D[f]):
                if cs.recv is None and cs.name == fn.name and idx < len(cs.args):
                    a = cs.args[idx]
                    if a[0] == "CALL_EXPR":
                        cn = doraq.text(DS.call_parts(a)[0]).split("::")[-1]
                        if cn in self.natives:
                            hits.append(cn)
        return hits

    def root_fn(self, fn, local, side):
        w = DS.Walk(self.ds, fn, local, side)
        seq = w.run()
        key = ("dora-root", fn.name, local)
        return IR.Fn(key, "%s[%s]" % (fn.name, local), "dora", side, seq, fn.where(), owner=fn.file)


# ---------------------------------------------------------------------------------------------- pairing

def build_root_pairs(F, rs, ds, D, observe):
    """-> (fns: {key: IR.Fn}, pairs: [(writer key, reader key, link text)])"""
    fns = {}
    pairs = []
    symbols = {}
    for p, item in rs.fn_items.items():
        if item.get("symbol"):
            symbols[item["symbol"]] = p
    rown = rs_owners(rs)
    by_fn = {}
    for (path, local, side) in rown:
        by_fn.setdefault(path, []).append((local, side))
    do = DoraOwners(D, ds)
    downers = do.owners()

    def rs_stream(path, side, allow_callees):
        cands = [(path, l) for (l, s) in by_fn.get(path, []) if s == side]
        if not cands and allow_callees:
            for q in rs_callees(rs, path):
                cands += [(q, l) for (l, s) in by_fn.get(q, []) if s == side]
        return cands

    used_rs = set()
    for (fn, local, side, origin) in downers:
        natives = []
        if side == "w":
            natives = do.writer_target(fn, local)
        elif origin[0] == "native-result":
            natives = [origin[1]]
        elif origin[0] == "param":
            natives = do.param_origin(fn, origin[1])
        dfn = do.root_fn(fn, local, side)
        if natives:
            for N in sorted(set(natives)):
                sym = mangle(do.natives[N])
                rpath = symbols.get(sym)
                if rpath is None:
                    observe("root: Dora %s uses native %s but no Rust function exports %s" % (fn.name, N, sym))
                    continue
                cands = rs_stream(rpath, "r" if side == "w" else "w", allow_callees=(side == "r"))
                if len(cands) != 1:
                    observe("root: native %s (%s): %d candidate %s streams on the Rust side — not compared"
                            % (N, last(rpath), len(cands), "reader" if side == "w" else "writer"))
                    continue
                rf = rs_root_fn(rs, cands[0][0], cands[0][1], "r" if side == "w" else "w")
                fns[dfn.key] = dfn
                fns[rf.key] = rf
                used_rs.add((cands[0][0], cands[0][1]))
                link = "native %s = %s" % (N, last(rpath))
                pairs.append((dfn.key, rf.key, link) if side == "w" else (rf.key, dfn.key, link))
        elif side == "r" and origin[0] == "param":
            # entry point called through a code address: same function name on the Rust side owning the writer
            cands = [(p, l) for (p, l, s) in rown if s == "w" and last(p) == fn.name]
            if len(cands) == 1:
                rf = rs_root_fn(rs, cands[0][0], cands[0][1], "w")
                fns[dfn.key] = dfn
                fns[rf.key] = rf
                used_rs.add(cands[0])
                pairs.append((rf.key, dfn.key, "entry point %s" % fn.name))
            else:
                observe("root: Dora %s reads a byte array parameter; %d same-named Rust owners — not compared"
                        % (fn.name, len(cands)))
        else:
            observe("root: Dora %s owns a %s that is linked to no native — not compared"
                    % (fn.name, "writer" if side == "w" else "reader"))
    for (path, local, side) in rown:
        if (path, local) not in used_rs:
            observe("root: Rust %s owns a %s `%s` that no Dora owner was linked to"
                    % (last(path), "writer" if side == "w" else "reader", local))
    return fns, pairs

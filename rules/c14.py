"""C14 — a trap report names what failed and where.

Decided clauses:
  R1  every trap/bailout/call site in the baseline code generator passes a source position derived
      from the *current bytecode offset* (or from a Location parameter filled that way, or from the
      function's own location in the entry sequence); the trap stub records the position right after
      the call; the optimizing back ends record a location for every trap call
  R2  trap codes, messages and exit statuses agree (Trap ↔ TryFrom<u8> ↔ TRAP_* ↔ message match)
  R3  buffered standard output is flushed before the process is terminated with _exit/abort
That the recorded line is the right line after optimisation/inlining is NOT decided.
"""
import re
import cfg
import doraq
import hirq
from callgraph import CallGraph

RT = "dora_runtime::"
LOC = "dora_bytecode::data::Location"


def last(p):
    return p.rsplit("::", 1)[-1]


def native_entries(c):
    return [f["path"] for f in c.items["fns"] if f.get("symbol") and f.get("has_body")]


def rule_r1(chk, F):
    r = chk.rule("C14.R1", "every Location handed to a trap/bailout/call emitter by CannonCodeGen derives from "
                           "bytecode().offset_location(current_offset), a Location parameter filled that way, or "
                           "self.location outside the bytecode visitor; the trap stub records the position after the "
                           "call; boots records a location for every trap call")
    c = F.crate("dora_cannon_compiler")
    cg = CallGraph(F, libs=["dora_cannon_compiler"], bins=[])
    fnitems = {f["path"]: f for f in c.items["fns"]}
    visitors = [p for p in cg.bodies if "as dora_bytecode::reader::BytecodeVisitor>::visit_" in p
                and "CannonCodeGen" in p]
    r.floor("CannonCodeGen visitor methods", len(visitors), 60)
    from_visitors = cg.reachable_from(visitors)
    sites = 0
    classes = {}

    def classify(B, op, defs, p, callee_last=""):
        """→ (ok, class)"""
        o = cfg.origin(B, op, defs)
        if o[0] == "call":
            nm = cfg.callee_name(cfg.callee_of(o[1]["f"])) or ""
            if last(nm) == "offset_location" and nm.startswith("dora_bytecode::"):
                # the offset argument must come from self.current_offset
                a = o[1]["a"][1] if len(o[1]["a"]) > 1 else None
                oo = cfg.origin(B, a, defs) if a is not None else None
                ok = False
                if oo and oo[0] == "call":
                    inner = oo[1]["a"][0] if oo[1]["a"] else None
                    o3 = cfg.origin(B, inner, defs) if inner is not None else None
                    ok = bool(o3 and isinstance(o3[-1], list) and ".current_offset" in o3[-1])
                if oo and isinstance(oo[-1], list) and ".current_offset" in oo[-1]:
                    ok = True
                return (ok, "offset_location(current_offset)" if ok else "offset_location(<other offset>)")
            if nm.endswith("Iterator>::next") or nm.endswith("::next"):
                return (None, "slow_paths-iteration")
            return (False, "call:" + last(nm))
        if o[0] == "param":
            ty = B.local_ty(o[1])
            if ty == LOC and not o[2]:
                return (True, "Location parameter")
            if ".location" in o[2] and "CannonCodeGen" in ty:
                # the function's own location: legitimate for the prologue stack check and for polls (a frame
                # suspended at a poll never heads a trap report), and anywhere outside the bytecode visitor
                ok = p not in from_visitors or callee_last in ("safepoint", "check_stack_limit")
                return (ok, "self.location" + ("" if ok else " inside bytecode visitor"))
            return (False, "param:%s%s" % (last(ty), "".join(o[2])))
        if o[0] == "local":
            return (None, "local:%s%s" % (last(B.local_ty(o[1])), "".join(o[2])))
        return (False, o[0])

    loc_param_fns = set()
    for p, (cn, mb) in sorted(cg.bodies.items()):
        if "CannonCodeGen" not in p:
            continue
        B = cfg.Body(mb)
        defs = None
        for x in B.calls:
            it = fnitems.get(x.name)
            if not it:
                continue
            for i, ty in enumerate(it["inputs"]):
                if ty != LOC or i >= len(x.args):
                    continue
                if defs is None:
                    defs = cfg.simple_defs(B)
                ok, cls = classify(B, x.args[i], defs, p, last(x.name))
                sites += 1
                classes[cls] = classes.get(cls, 0) + 1
                key = "%s→%s" % (p, last(x.name))
                r.instance(key + "@" + cls, sample={"fn": p, "callee": x.name, "origin": cls, "at": x.where()})
                if cls == "Location parameter":
                    loc_param_fns.add(p)
                if ok is False:
                    r.violation("%s:%s:location-from-%s" % (p, last(x.name), cls),
                                "the position passed to %s does not derive from the current bytecode offset (%s): a "
                                "trap raised here is reported at the wrong source line" % (last(x.name), cls),
                                x.where())
                elif ok is None:
                    # values read back out of self.slow_paths: every push must carry a good location
                    if cls != "slow_paths-iteration" or not p.endswith("emit_slow_paths"):
                        r.violation("%s:%s:untraceable-location" % (p, last(x.name)),
                                    "cannot trace the position argument (%s)" % cls, x.where())
    r.floor("Location-carrying call sites in CannonCodeGen", sites, 45)
    r.observe("origin classes: %s" % classes)
    # slow_paths pushes
    npush = 0
    for p, (cn, mb) in sorted(cg.bodies.items()):
        if "CannonCodeGen" not in p:
            continue
        B = cfg.Body(mb)
        defs = cfg.simple_defs(B)
        for x in B.calls:
            if not (x.name and x.name.endswith("Vec::<T, A>::push") and x.args):
                continue
            o = cfg.origin(B, x.args[0], defs)
            if not (isinstance(o[-1], list) and ".slow_paths" in o[-1]):
                continue
            npush += 1
            oa = cfg.origin(B, x.args[1], defs)
            ok = False
            cls = "?"
            if oa[0] == "agg" and oa[1][0] == "tuple" and oa[2]:
                ok, cls = classify(B, oa[2][-1], defs, p)
            r.instance("%s:slow_paths.push@%s" % (p, cls))
            if ok is not True:
                r.violation("%s:slow_paths.push:location-from-%s" % (p, cls),
                            "a deferred slow-path call is queued with a position that does not derive from the "
                            "current bytecode offset", x.where())
    # the trap stub
    tr = [p for p in cg.bodies if p.endswith("masm::MacroAssembler::trap")]
    if r.anchor("MacroAssembler::trap", tr):
        B = cg.body(tr[0])
        call = B.calls_to("masm::MacroAssembler::raw_call_runtime_function") or \
            [x for x in B.calls if x.name and "raw_call" in x.name]
        pos = B.calls_to("masm::MacroAssembler::emit_position")
        r.instance("trap:call-then-emit_position")
        if not call or not pos or not B.dominates(call[0].block, pos[0].block) or \
                not B.postdominates(pos[0].block, call[0].block):
            r.violation(tr[0] + ":no-position-after-call",
                        "the trap stub must record the source position at the return offset of the trap call, or the "
                        "stack trace's first line cannot be resolved", B.file)
        else:
            o = cfg.origin(B, pos[0].args[1]) if len(pos[0].args) > 1 else None
            if not (o and o[0] == "param" and B.local_ty(o[1]) == LOC):
                r.violation(tr[0] + ":position-not-from-parameter", "emit_position must record the bailout's own "
                                                                    "location", pos[0].where())
            # nothing that emits code between call and position
            mid = [x for x in B.calls if x.block in B.reachable_from_succ(call[0].block, avoid={pos[0].block})
                   and x.block != pos[0].block and B.dominates(call[0].block, x.block)]
            if mid:
                r.violation(tr[0] + ":code-between-call-and-position",
                            "`%s` runs between the trap call and emit_position, so the position is recorded at the "
                            "wrong offset" % last(mid[0].name or "?"), mid[0].where())
    eb = [p for p in cg.bodies if p.endswith("masm::MacroAssembler::emit_bailouts")]
    if r.anchor("MacroAssembler::emit_bailouts", eb):
        B = cg.body(eb[0])
        r.instance("emit_bailouts→trap")
        if not B.calls_to("masm::MacroAssembler::trap"):
            r.violation(eb[0] + ":no-trap", "deferred bailouts are never emitted", B.file)
    # boots back ends
    D = F.dora()
    for f in ("pkgs/boots/codegen/x64.dora", "pkgs/boots/codegen/arm64.dora"):
        t = D.get(f)
        if not r.anchor(f, t):
            continue
        n = 0
        for fn in doraq.functions(t, f):
            body = fn.body
            if body is None:
                continue
            txt = doraq.text(body)
            if "RuntimeFunction::TrapTrampoline" not in txt:
                continue
            n += 1
            r.instance("%s::%s:trap-call-has-location" % (f, fn.qual))
            if "self.locations.insert" not in txt and "locations.insert" not in txt:
                r.violation("%s::%s:trap-without-location" % (f, fn.qual),
                            "a call to the trap trampoline is emitted without recording its source location",
                            fn.where())
        r.floor("%s trap emitters" % f, n, 1)


def rule_r2(chk, F):
    r = chk.rule("C14.R2", "Trap codes agree across abi.rs (enum + TryFrom<u8>), pkgs/boots/interface.dora (TRAP_*) "
                           "and the runtime's message table; exit status is 101 + code")
    dc = F.crate("dora_compiler")
    rt = F.crate("dora_runtime")
    trap = dc.adt("abi::Trap")
    if not r.anchor("dora_compiler::abi::Trap", trap):
        return
    d = {v["name"]: v["discr"] for v in trap["variants"]}
    r.floor("Trap variants", len(d), 10)
    consts = doraq.consts(F.dora()["pkgs/boots/interface.dora"])
    tcs = {k: v for k, v in consts.items() if k.startswith("TRAP_")}
    r.floor("TRAP_* constants", len(tcs), 10)
    for name, val in sorted(d.items()):
        dn = "TRAP_" + name
        r.instance("Trap::%s" % name, sample={"rust": val, "dora": tcs.get(dn)})
        if dn not in tcs:
            r.violation("Trap::%s:no-dora-constant" % name, "no %s in interface.dora" % dn,
                        "pkgs/boots/interface.dora")
        elif tcs[dn] != val:
            r.violation("Trap::%s:value" % name, "Rust %d vs Dora %s=%s: the optimizing compiler's traps are reported "
                                                 "as a different failure" % (val, dn, tcs[dn]),
                        "pkgs/boots/interface.dora")
    for dn in tcs:
        if dn[5:] not in d:
            r.violation("%s:no-rust-variant" % dn, "Dora trap constant without a Rust Trap variant",
                        "pkgs/boots/interface.dora")
    try:
        from rules import tables
        conv = tables.find_conversion_fns(dc, trap["path"])
        dec = conv.get("try_from") or conv.get("from")
        if dec:
            tables.check_inverse_pair(r, dc, "discr:" + trap["path"], dec, "Trap", const_crates=[dc])
    except Exception as e:     # tables engine unavailable: fall back to a direct arm check
        r.observe("tables engine not used: %s" % e)
    tfn = rt.hir_fn("stdlib::trap")
    if r.anchor("dora_runtime::stdlib::trap", tfn):
        m = [n for n in hirq.walk(tfn["body"]) if n[0] == "match"]
        msgs = {}
        wild = False
        for mm in m:
            arms = hirq.match_arms(mm)
            hit = False
            for (pat, guard, arm) in arms:
                for pth in hirq.pat_paths(pat):
                    if "::Trap::" in pth:
                        a = hirq.strip(arm)
                        msgs[last(pth)] = a[2] if hirq.is_node(a) and a[0] == "lit" else None
                        hit = True
            if hit:
                wild = any(hirq.pat_is_wild(pat) for (pat, g, a) in arms)
        r.instance("stdlib::trap:message-table", sample=msgs)
        for name in d:
            if name not in msgs:
                r.violation("stdlib::trap:no-message:%s" % name, "no message arm for Trap::%s" % name, tfn["file"])
        if wild:
            r.violation("stdlib::trap:wildcard-arm", "the message match has a wildcard arm (a new trap kind would be "
                                                     "reported with somebody else's message)", tfn["file"])
        if len(set(v for v in msgs.values() if v)) != len([v for v in msgs.values() if v]):
            r.violation("stdlib::trap:duplicate-message", "two trap kinds share a message", tfn["file"])
        # exit status 101 + id
        mb = rt.mir_fn("stdlib::trap")
        B = cfg.Body(mb)
        ex = [x for x in B.calls if x.name and last(x.name) == "_exit"]
        r.instance("stdlib::trap:exit-status")
        ok = False
        for x in ex:
            for blk in B.blocks:
                for s in blk["s"]:
                    if s[0] == "a" and s[2][0] == "bin" and s[2][1] in ("Add", "AddWithOverflow"):
                        if any(o[0] == "k" and o[1].get("v") == 101 for o in s[2][2:4]):
                            ok = True
        if not ok:
            r.violation("stdlib::trap:exit-status", "exit status must be 101 + trap code", tfn["file"])


def rule_r3(chk, F):
    r = chk.rule("C14.R3", "every _exit/abort reachable from a native entry is dominated by a flush of stdout "
                           "(libc::_exit skips std's at-exit flush of the LineWriter behind print)")
    rt = F.crate("dora_runtime")
    cg = CallGraph(F, libs=["dora_runtime"], bins=[])
    entries = native_entries(rt)
    reach = cg.reachable_from(entries)
    n = 0
    for p in sorted(reach):
        if p not in cg.bodies or not p.startswith(RT):
            continue
        B = cg.body(p)
        hard = [x for x in B.calls if x.name and (last(x.name) == "_exit" and x.name.startswith("libc")
                                                   or x.name == "std::process::abort")]
        if not hard:
            continue
        flushes = [x for x in B.calls if x.name and last(x.name) == "flush" and ("Stdout" in x.name or (
            x.fn and "Stdout" in (x.fn.get("g") or "")))]
        for h in hard:
            n += 1
            ok = any(B.dominates(f.block, h.block) for f in flushes)
            r.instance("%s:%s" % (p, last(h.name)), sample={"fn": p, "exit": h.name, "flushed": ok, "at": h.where()})
            if not ok:
                r.violation("%s:%s-without-stdout-flush" % (p, last(h.name)),
                            "%s terminates the process without flushing std::io::stdout(): everything the program "
                            "printed (to a pipe/file) before the trap is lost" % last(h.name), h.where())
    r.floor("hard-exit sites", n, 1)
    # print goes through std's buffered stdout (the belief this rule rests on)
    pr = rt.hir_fn("stdlib::print")
    if r.anchor("dora_runtime::stdlib::print", pr):
        uses = [cs for cs in hirq.calls(pr["body"]) if cs.callee and cs.callee.endswith("stdio::stdout")]
        r.instance("print→std::io::stdout()")
        if not uses:
            r.observe("print no longer writes through std::io::stdout(); R3's premise should be re-examined")


def rule_r5(chk, F):
    """The stack trace of a trap inside inlined code is rebuilt by the runtime from per-inline-site records
    (callee, call-site location, parent record).  A record shared between two sites of the same callee names the
    first site's line and caller chain for every later one — and the baseline compiler, which never inlines,
    reports the true chain."""
    r = chk.rule("C14.R5", "boots creates one inlined-function record per inline site: the recorder stores every "
                           "one of its parameters (callee, type arguments, call-site location) in the record it "
                           "pushes, on every path, and every inline site passes the location of the call being inlined")
    D = F.dora()
    recorders = []
    for f, t in sorted(D.items()):
        if not f.startswith("pkgs/boots/"):
            continue
        for fn in doraq.functions(t, f):
            if fn.body is None:
                continue
            for c in doraq.calls(fn.body):
                if c.name == "push" and c.args:
                    inner = [k for k in doraq.calls(c.args[0])]
                    inner = [k for k in inner if k.name == "InlinedFunction"]
                    if inner:
                        recorders.append((fn, c, inner[0]))
    if not r.anchor("pkgs/boots: function that pushes an InlinedFunction record", recorders):
        return
    names = set()
    for fn, push, ctor in recorders:
        names.add(fn.name)
        key = "%s::%s" % (fn.file, fn.qual)
        params = [p for p, _t in fn.params() if p != "self"]
        args_txt = " ".join(doraq.text(a) for a in ctor.args)
        toks = set(re.findall(r"[A-Za-z_][A-Za-z0-9_]*", args_txt))
        r.instance(key + ":record", sample={"params": params, "ctor_args": args_txt[:120]})
        for pn in params:
            if pn not in toks:
                r.violation(key + ":param-%s-not-recorded" % pn,
                            "parameter `%s` of the recorder does not reach the InlinedFunction record: inline sites "
                            "that differ only in it share a record, so a trap in inlined code reports the wrong "
                            "call-site line / caller chain" % pn, fn.where())
        rets = [n for n in doraq.walk(fn.body) if doraq.is_node(n) and n[0] == "RETURN_EXPR"]
        early = [n for n in rets if n[1] <= push.line]
        if early:
            r.violation(key + ":returns-without-recording",
                        "the recorder can return (line %d) without pushing a new record: the inline site then shares "
                        "the record — and with it the call-site location and parent chain — of an earlier site of the "
                        "same callee; a trap in the later copy is reported with the first copy's caller lines, unlike "
                        "the baseline compiler" % early[0][1], "%s:%d" % (fn.file, early[0][1]))
    # inline sites
    nsites = 0
    for f, t in sorted(D.items()):
        if not f.startswith("pkgs/boots/"):
            continue
        for fn in doraq.functions(t, f):
            if fn.body is None:
                continue
            for c in doraq.calls(fn.body):
                if c.name in names and c.recv is not None and fn.name not in names:
                    nsites += 1
                    locs = [doraq.text(a) for a in c.args if "location" in doraq.text(a).lower()]
                    r.instance("%s::%s:inline-site" % (fn.file, fn.qual), sample={"args": [doraq.text(a)[:50] for a in c.args]})
                    if not locs:
                        r.violation("%s::%s:inline-site-without-location" % (fn.file, fn.qual),
                                    "the inline site records the callee without the location of the call being inlined",
                                    "%s:%d" % (fn.file, c.line))
    r.floor("inline sites calling the recorder", nsites, 1)


def run(chk, F):
    rule_r1(chk, F)
    rule_r2(chk, F)
    rule_r3(chk, F)
    # the trap's return address (where its position is recorded) must lie inside the function (engine of C10.R5)
    from rules import c10
    c10.rule_r5(chk, F, rid="C14.R4")
    c10.rule_r8(chk, F, rid="C14.R7")
    rule_r5(chk, F)
    rule_r8(chk, F)
    chk.assumptions += [
        "decides provenance of positions, agreement of trap tables and flush-before-_exit; correctness of the "
        "recorded line after inlining/optimisation and frame-walk correctness are not decided",
        "masm/arm64.rs (cfg(aarch64)) is not analysed on this host",
    ]
    from rules import a64; a64.run_c14(chk, F)  # noqa: E702  arm64 siblings (aarch64 fact set)


def rule_r8(chk, F):
    """C14.R8: the baseline compiler records the source position of an out-of-line trap (assert, …) in the slow path it
    queues, from the `location` of the very operation being compiled.  A method of the BaselineAssembler that takes a
    Location and queues a slow-path record with it must do so on *every* path: re-using a record queued for an earlier
    operation re-uses that operation's position (the second assert of a function is reported on the first one's
    line).  Same discipline as R5 for the optimizing compiler's inline records."""
    r = chk.rule("C14.R8", "every BaselineAssembler method that queues a slow-path record carrying its `location` "
                           "parameter does so on every path (one record, with this operation's position, per operation)")
    c = F.crate("dora_cannon_compiler")
    n = 0
    for p, mb in sorted(c.mir.items()):
        if "asm::BaselineAssembler" not in p or "{closure" in p:
            continue
        B = cfg.Body(mb)
        loc_params = [i for i in range(1, B.argc + 1) if B.local_ty(i).endswith("Location")]
        if not loc_params:
            continue
        defs = cfg.simple_defs(B)
        push_blocks = set()
        for blk_i, blk in enumerate(B.blocks):
            if blk["c"]:
                continue
            for s_ in blk["s"]:
                if s_[0] == "a" and s_[2][0] == "agg" and s_[2][1][0] == "adt" and \
                        s_[2][1][1].endswith("SlowPathKind"):
                    ops = s_[2][2]
                    if any((lambda o: o[0] == "param" and o[1] in loc_params)(cfg.origin(B, op, defs)) for op in ops
                           if op[0] in ("c", "m")):
                        push_blocks.add(blk_i)
        if not push_blocks:
            continue
        n += 1
        # must-pass-through: no normal return is reachable from the entry when the record-building blocks are avoided
        reach = B.reachable(0, avoid=push_blocks)
        leak = [e for e in B.exits() if e in reach and e not in push_blocks]
        r.instance("%s:record-per-operation" % p, sample={"method": last(p), "record_blocks": len(push_blocks),
                                                           "paths_without_record": bool(leak)})
        if leak:
            r.violation("%s:path-without-its-own-slow-path-record" % p,
                        "%s can return without queueing a slow-path record that carries this call's `location`: the "
                        "operation then shares the out-of-line code — and the recorded source position — of an earlier "
                        "one (the second failing assert of a function is reported on the first assert's line)"
                        % last(p), B.file)
    r.floor("BaselineAssembler methods that queue a slow-path record with their location", n, 3)

"""C08 helper: one small expression IR for both assemblers.

The Rust HIR s-expressions (rsfacts) and the Dora syntax tree (dorafacts) of the two AArch64 assemblers are
translated into the same tuple IR so that every C08 rule is written once.

    expr :=  ('int', v) | ('bool', b) | ('var', name) | ('path', text)
          |  ('bin', op, a, b)            op is the source operator text: | & << >> >>> + - * / % ^ == != < <= > >= && ||
          |  ('un', '!'|'-', a) | ('cast', a, ty) | ('field', a, name) | ('tuple', [e..])
          |  ('call', name, qual, [args], line)                 free function / constructor call
          |  ('mcall', name, recv, [args], line, resolved|None) method call
          |  ('if', cond, then, else|None) | ('match', scrut, [(pat, body)..]) | ('block', [stmt..], tail|None)
          |  ('assert', cond, line) | ('panic',) | ('assign', l, r) | ('ret', e|None) | ('loop', [e..])
          |  ('letx', [names], e)                                 `if let` condition
          |  ('unk', what, [children])
    stmt :=  ('let', [names], init|None, line) | expr
    pat  :=  ('pat', [variant paths], [bound names]) | ('pwild',)

Types are normalised to: i32 u32 i64 u64 u8 usize bool, or the last path segment (Register, NeonRegister, ...).
"""
import re

import doraq
import hirq

FULL = 0xFFFFFFFF

_RS_OPS = {"Add": "+", "Sub": "-", "Mul": "*", "Div": "/", "Rem": "%", "Shl": "<<", "Shr": ">>", "BitOr": "|",
           "BitAnd": "&", "BitXor": "^", "Eq": "==", "Ne": "!=", "Lt": "<", "Le": "<=", "Gt": ">", "Ge": ">=",
           "And": "&&", "Or": "||"}
_PANIC_MACROS = ("unreachable", "unimplemented", "panic", "todo")
_DORA_TYPES = {"Int32": "i32", "Int64": "i64", "UInt8": "u8", "Bool": "bool", "Float32": "f32", "Float64": "f64"}
_DORA_CASTS = {"to_int32": "i32", "to_int64": "i64", "to_uint8": "u8"}
_DORA_PANICS = ("unreachable", "unimplemented", "fatalError")
# calls that return their receiver unchanged for our purposes (value-preserving conversions)
_RS_TRANSPARENT = ("core::convert::Into::into", "core::clone::Clone::clone", "core::convert::From::from")


class Fn:
    __slots__ = ("lang", "name", "qual", "params", "body", "where", "pub", "self_ty", "ret", "line")

    def __init__(self, lang, name, qual, params, body, where, pub, self_ty, ret, line):
        self.lang, self.name, self.qual, self.params, self.body = lang, name, qual, params, body
        self.where, self.pub, self.self_ty, self.ret, self.line = where, pub, self_ty, ret, line

    def param_index(self, name):
        for i, (n, _t) in enumerate(self.params):
            if n == name:
                return i
        return None

    def __repr__(self):
        return "<Fn %s %s>" % (self.lang, self.qual)


def norm_ty(t):
    if t is None:
        return None
    t = t.strip()
    while t.startswith("&"):
        t = t[1:].strip()
        if t.startswith("mut "):
            t = t[4:].strip()
    if t in _DORA_TYPES:
        return _DORA_TYPES[t]
    return t.rsplit("::", 1)[-1]


def pname(path):
    """'dora_asm::arm64::Extend::UXTX' → 'Extend::UXTX'; 'dora_asm::arm64::REG_ZERO' → 'REG_ZERO';
    'encoding::fits_i14' → 'fits_i14'"""
    segs = path.split("::")
    if len(segs) >= 2 and segs[-2][:1].isupper() and not segs[-2].isupper():
        return segs[-2] + "::" + segs[-1]
    return segs[-1]


# ---------------------------------------------------------------------------------------------- Rust HIR → IR

def _rs_pat_names(p, out):
    if not hirq.is_node(p):
        return
    k = p[0]
    if k == "pbind":
        out.append(p[1])
        if p[2] is not None:
            _rs_pat_names(p[2], out)
    elif k in ("ptuple", "por"):
        for q in p[1]:
            _rs_pat_names(q, out)
    elif k == "pts":
        for q in p[2]:
            _rs_pat_names(q, out)
    elif k == "pstruct":
        for (_f, q) in p[2]:
            _rs_pat_names(q, out)
    elif k == "pref":
        _rs_pat_names(p[1], out)


def _rs_pat(p):
    if hirq.pat_is_wild(p) and p[0] == "pwild":
        return ("pwild",)
    names = []
    _rs_pat_names(p, names)
    paths = [pname(d) for d in hirq.pat_paths(p)]
    if not paths and hirq.is_node(p) and p[0] == "pbind":
        return ("pat", [], names)
    return ("pat", paths, names)


def _rs_assert_eq(inner, line, op):
    """assert_eq!(a, b) expands to match (&a, &b) { (l, r) => if !(*l == *r) {..} }"""
    m = hirq.unmacro(inner)
    if hirq.is_node(m) and m[0] == "match" and hirq.is_node(m[1]) and m[1][0] == "tup" and len(m[1][1]) == 2:
        a, b = m[1][1]
        return ("assert", ("bin", op, rs_expr(a), rs_expr(b)), line)
    return ("unk", "assert_eq", [rs_expr(inner)])


def rs_expr(e):
    if not hirq.is_node(e):
        return ("unk", "raw", [])
    k = e[0]
    if k == "lit":
        if e[1] == "int":
            return ("int", e[2])
        if e[1] == "bool":
            return ("bool", bool(e[2]))
        return ("unk", "lit:" + e[1], [])
    if k == "local":
        return ("var", e[1])
    if k == "def":
        return ("path", e[2])
    if k == "call":
        c = e[2]
        args = [rs_expr(a) for a in e[3]]
        if hirq.is_node(c) and c[0] == "def":
            if c[2].startswith("core::panicking::") or c[2].startswith("std::rt::begin_panic"):
                return ("panic",)
            return ("call", c[2].rsplit("::", 1)[-1], c[2], args, e[1])
        return ("unk", "call", [rs_expr(c)] + args)
    if k == "mcall":
        recv = rs_expr(e[4])
        if e[2] in _RS_TRANSPARENT and not e[5]:
            return recv
        return ("mcall", e[3], recv, [rs_expr(a) for a in e[5]], e[1], e[2])
    if k == "bin":
        return ("bin", _RS_OPS.get(e[1], e[1]), rs_expr(e[2]), rs_expr(e[3]))
    if k == "un":
        if e[1] == "Deref":
            return rs_expr(e[2])
        return ("un", "!" if e[1] == "Not" else "-", rs_expr(e[2]))
    if k == "cast":
        return ("cast", rs_expr(e[1]), norm_ty(e[2]))
    if k == "field":
        return ("field", rs_expr(e[1]), e[2])
    if k == "addr":
        return rs_expr(e[2])
    if k == "tup":
        return ("tuple", [rs_expr(a) for a in e[1]])
    if k == "if":
        return ("if", rs_expr(e[1]), rs_expr(e[2]), rs_expr(e[3]) if e[3] is not None else None)
    if k == "letx":
        names = []
        _rs_pat_names(e[1], names)
        return ("letx", names, rs_expr(e[2]))
    if k == "match":
        return ("match", rs_expr(e[1]), [(_rs_pat(a[0]), rs_expr(a[2])) for a in e[2]])
    if k == "block":
        return ("block", [rs_stmt(s) for s in e[1]], rs_expr(e[2]) if e[2] is not None else None)
    if k == "let":
        return rs_stmt(e)
    if k == "macro":
        name = e[1].rstrip("!").split("::")[-1]
        line = e[3] if len(e) > 3 else 0
        if name == "assert":
            inner = e[2]
            if hirq.is_node(inner) and inner[0] == "if" and hirq.is_node(inner[1]) and inner[1][0] == "un" \
                    and inner[1][1] == "Not":
                return ("assert", rs_expr(inner[1][2]), line)
            return ("unk", "assert", [rs_expr(inner)])
        if name == "assert_eq":
            return _rs_assert_eq(e[2], line, "==")
        if name == "assert_ne":
            return _rs_assert_eq(e[2], line, "!=")
        if name in _PANIC_MACROS:
            return ("panic",)
        if name.startswith("debug_assert"):
            return ("unk", "debug_assert", [])
        if name == "desugar:ForLoop":
            return ("loop", [rs_expr(e[2])])
        return rs_expr(e[2])
    if k == "assign":
        return ("assign", rs_expr(e[1]), rs_expr(e[2]))
    if k == "assignop":
        l, r = rs_expr(e[2]), rs_expr(e[3])
        return ("assign", l, ("bin", _RS_OPS.get(e[1], e[1]), l, r))
    if k == "loop":
        return ("loop", [rs_expr(e[2])])
    if k == "ret":
        return ("ret", rs_expr(e[1]) if e[1] is not None else None)
    if k == "struct":
        return ("unk", "struct", [rs_expr(v) for (_f, v) in e[2]])
    kids = [rs_expr(c) for c in e[1:] if hirq.is_node(c)]
    return ("unk", k, kids)


def rs_stmt(s):
    if hirq.is_node(s) and s[0] == "let":
        names = []
        _rs_pat_names(s[1], names)
        return ("let", names, rs_expr(s[2]) if s[2] is not None else None, s[4] if len(s) > 4 else 0)
    return rs_expr(s)


def rust_functions(crate, prefix):
    """all HIR bodies below `prefix` (e.g. 'dora_asm::arm64::') → {qual relative to prefix: Fn}"""
    items = {f["path"]: f for f in crate.items["fns"]}
    out = {}
    for p, b in crate.hir.items():
        if not p.startswith(prefix) or "{closure" in p:
            continue
        it = items.get(p)
        if it is None:
            continue
        qual = p[len(prefix):]
        if qual.startswith("tests::"):
            continue
        params, self_ty = [], None
        for (pat, ty) in b["params"]:
            nm = pat[1] if hirq.is_node(pat) and pat[0] == "pbind" else "_"
            if nm == "self":
                self_ty = norm_ty(ty)
                continue
            params.append((nm, norm_ty(ty)))
        out[qual] = Fn("rust", it["name"], qual, params, rs_expr(b["body"]), "%s:%d" % (b["file"], b["line"]),
                       bool(it.get("pub")), self_ty or norm_ty(it.get("self_ty")), norm_ty(it.get("output")),
                       b["line"])
    return out


_RS_CONST_RE = re.compile(r"const\s+(\w+)\s*:\s*([\w:]+)\s*=\s*(.+?);\s*$")


def rust_globals(crate, prefix, read_repo):
    """`const NAME: T = <init>;` items below prefix → {NAME: IR}.  rsfacts records a value only for scalar consts;
    for the one-line struct consts (R30 = Register(30)) the initialiser is read from the line rsfacts points at."""
    out = {}
    cache = {}
    for cst in crate.items["consts"]:
        p = cst["path"]
        if not p.startswith(prefix) or "::" in p[len(prefix):]:
            continue
        name = p[len(prefix):]
        if isinstance(cst.get("value"), (int, bool)) and not isinstance(cst.get("value"), bool):
            out[name] = ("int", cst["value"])
            continue
        f = cst.get("file")
        if f not in cache:
            try:
                cache[f] = read_repo(f).splitlines()
            except OSError:
                cache[f] = []
        lines = cache[f]
        ln = cst.get("line", 0)
        if not (0 < ln <= len(lines)):
            continue
        m = _RS_CONST_RE.search(lines[ln - 1])
        if not m or m.group(1) != name:
            continue
        init = m.group(3).strip()
        out[name] = _parse_simple_init(init)
    return out


def _parse_int(txt):
    t = txt.replace("_", "")
    t = re.sub(r"(u8|u16|u32|u64|i8|i16|i32|i64|usize|isize)$", "", t)
    try:
        if t.startswith(("0x", "0X")):
            return int(t, 16)
        if t.startswith(("0b", "0B")):
            return int(t[2:], 2)
        return int(t)
    except ValueError:
        return None


def _parse_simple_init(init):
    """`Register(30)` | `R29` | `0b01` — anything else is unknown"""
    m = re.match(r"^(\w+)\((\w+)\)$", init)
    if m:
        v = _parse_int(m.group(2))
        if v is not None:
            return ("call", m.group(1), m.group(1), [("int", v)], 0)
        return ("unk", "init", [])
    v = _parse_int(init)
    if v is not None:
        return ("int", v)
    if re.match(r"^\w+$", init):
        return ("path", init)
    return ("unk", "init", [])


# ---------------------------------------------------------------------------------------------- Dora tree → IR

def _d_pat_names(p, out):
    for n in doraq.walk(p):
        if n[0] == "IDENT_PATTERN":
            nm = doraq.ident(n)
            if nm:
                out.append(nm)


def _d_pat(p):
    if p[0] == "UNDERSCORE_PATTERN":
        return ("pwild",)
    names = []
    _d_pat_names(p, names)
    paths = []
    for n in doraq.walk(p):
        if n[0] == "CTOR_PATTERN":
            pd = doraq.child(n, "PATH_DATA")
            if pd is not None:
                paths.append(pname(doraq.text(pd)))
    if p[0] == "IDENT_PATTERN":
        return ("pat", [], names)
    return ("pat", paths, names)


def _d_args(node):
    al = doraq.child(node, "ARGUMENT_LIST")
    out = []
    if al:
        for li in doraq.children(al, "LIST_ITEM"):
            a = doraq.child(li, "ARGUMENT")
            if a is not None:
                es = doraq.nodes(a)
                if es:
                    out.append(d_expr(es[-1]))
    return out


def d_block(b):
    stmts = []
    tail = None
    ns = doraq.nodes(b)
    for i, n in enumerate(ns):
        if n[0] == "LET":
            sub = doraq.nodes(n)
            names = []
            if sub:
                _d_pat_names(sub[0], names)
            init = d_expr(sub[-1]) if len(sub) >= 2 and not sub[-1][0].endswith("_TYPE") else None
            stmts.append(("let", names, init, n[1]))
        elif n[0] == "EXPR_STMT":
            inner = doraq.nodes(n)
            if not inner:
                continue
            e = d_expr(inner[0])
            semi = any(t[0] == "SEMICOLON" for t in doraq.toks(n))
            if i == len(ns) - 1 and not semi:
                tail = e
            else:
                stmts.append(e)
        else:
            stmts.append(d_expr(n))
    return ("block", stmts, tail)


def d_expr(n):
    k = n[0]
    if k == "LIT_INT_EXPR":
        v = doraq.lit_value(n)
        return ("int", v) if v is not None else ("unk", "int", [])
    if k == "LIT_BOOL_EXPR":
        return ("bool", doraq.lit_value(n))
    if k == "PAREN_EXPR":
        ns = doraq.nodes(n)
        return d_expr(ns[0]) if ns else ("unk", "paren", [])
    if k == "PATH_EXPR":
        segs = doraq.children(n, "PATH_SEGMENT")
        if len(segs) == 1:
            return ("var", doraq.text(segs[0]))
        return ("path", doraq.text(n))
    if k == "BLOCK_EXPR":
        return d_block(n)
    if k == "CALL_EXPR":
        ns = doraq.nodes(n)
        callee = doraq.text(ns[0])
        args = _d_args(n)
        if callee == "assert" and len(args) == 1:
            return ("assert", args[0], n[1])
        if callee in _DORA_PANICS:
            return ("panic",)
        return ("call", callee.split("::")[-1], callee, args, n[1])
    if k == "METHOD_CALL_EXPR":
        ns = doraq.nodes(n)
        recv = d_expr(ns[0])
        name = doraq.ident(n)
        args = _d_args(n)
        if name in _DORA_CASTS and not args:
            return ("cast", recv, _DORA_CASTS[name])
        return ("mcall", name, recv, args, n[1], None)
    if k == "FIELD_EXPR":
        ns = doraq.nodes(n)
        ts = [t for t in doraq.toks(n) if t[0] in ("IDENTIFIER", "INT_LITERAL")]
        return ("field", d_expr(ns[0]), ts[-1][1] if ts else "?")
    if k == "BIN_EXPR":
        ns = doraq.nodes(n)
        ts = doraq.toks(n)
        if len(ns) == 2 and ts:
            return ("bin", ts[0][1], d_expr(ns[0]), d_expr(ns[1]))
        return ("unk", "bin", [d_expr(x) for x in ns])
    if k == "ASSIGN_EXPR":
        ns = doraq.nodes(n)
        if len(ns) == 2:
            return ("assign", d_expr(ns[0]), d_expr(ns[1]))
        return ("unk", "assign", [d_expr(x) for x in ns])
    if k == "UN_EXPR":
        ns = doraq.nodes(n)
        ts = doraq.toks(n)
        if ns and ts and ts[0][1] in ("!", "-"):
            inner = d_expr(ns[0])
            if ts[0][1] == "-" and inner[0] == "int":
                return ("int", -inner[1])
            return ("un", ts[0][1], inner)
        return ("unk", "un", [d_expr(x) for x in ns])
    if k == "IF_EXPR":
        ns = doraq.nodes(n)
        cond = d_expr(ns[0]) if ns else ("unk", "cond", [])
        then = d_expr(ns[1]) if len(ns) > 1 else None
        els = d_expr(ns[2]) if len(ns) > 2 else None
        return ("if", cond, then, els)
    if k == "MATCH_EXPR":
        ns = doraq.nodes(n)
        arms = []
        for (_t, pat, body) in doraq.direct_match_arms(n):
            arms.append((_d_pat(pat), d_expr(body)))
        return ("match", d_expr(ns[0]), arms)
    if k == "TUPLE_EXPR":
        out = []
        for li in doraq.children(n, "LIST_ITEM"):
            es = doraq.nodes(li)
            if es:
                out.append(d_expr(es[0]))
        return ("tuple", out)
    if k == "RETURN_EXPR":
        ns = doraq.nodes(n)
        return ("ret", d_expr(ns[0]) if ns else None)
    if k in ("WHILE_EXPR", "FOR_EXPR"):
        return ("loop", [d_expr(x) for x in doraq.nodes(n) if not x[0].endswith("_PATTERN")])
    if k == "EXPR_STMT":
        ns = doraq.nodes(n)
        return d_expr(ns[0]) if ns else ("unk", "stmt", [])
    return ("unk", k, [d_expr(x) for x in doraq.nodes(n)
                       if not x[0].endswith(("_TYPE", "_PATTERN", "_LIST")) and x[0] not in ("PATH_DATA",)])


def dora_functions(tree, file):
    out = {}
    for f in doraq.functions(tree, file):
        if f.body is None:
            continue
        params = [(n, norm_ty(t)) for (n, t) in f.params()]
        self_ty = None
        if f.container and not f.container.startswith("trait "):
            self_ty = norm_ty(f.container.split(" for ")[-1])
        static = any(m.startswith("static") for m in f.mods)
        out[f.qual] = Fn("dora", f.name, f.qual, params, d_block(f.body), f.where(), "pub" in f.mods,
                         None if static else self_ty, norm_ty(f.return_type()), f.line)
    return out


def dora_globals(tree):
    """top-level `let NAME: T = <init>;` and `const NAME: T = <lit>;` → {NAME: IR}"""
    out = {}
    for n in doraq.walk(tree):
        if n[0] in ("GLOBAL", "CONST"):
            nm = doraq.ident(n)
            es = [c for c in doraq.nodes(n) if not c[0].endswith("_TYPE") and c[0] != "MODIFIER_LIST"]
            if nm and es:
                out[nm] = d_expr(es[-1])
    return out


def dora_struct_field_pub(trees, name):
    """is the first positional field of `struct name(...)` public?  None if the struct is not found"""
    for _f, t in trees.items():
        for n in doraq.walk(t):
            if n[0] == "STRUCT" and doraq.ident(n) == name:
                txt = doraq.text(n)
                m = re.search(r"\(\s*(pub\b)?", txt)
                return bool(m and m.group(1))
    return None


def dora_module_pub(tree, name):
    for n in doraq.walk(tree):
        if n[0] == "MODULE" and doraq.ident(n) == name:
            return "pub" in doraq.modifiers(n)
    return None


# ---------------------------------------------------------------------------------------------- generic helpers

def is_e(x):
    return isinstance(x, tuple) and len(x) > 0 and isinstance(x[0], str)


def walk(x):
    """pre-order over all IR nodes below x (statements included)"""
    st = [x]
    while st:
        y = st.pop()
        if isinstance(y, tuple):
            if is_e(y):
                yield y
            for c in reversed(y):
                if isinstance(c, (tuple, list)):
                    st.append(c)
        elif isinstance(y, list):
            for c in reversed(y):
                if isinstance(c, (tuple, list)):
                    st.append(c)


def vars_of(e):
    return {n[1] for n in walk(e) if n[0] == "var"}


def render(e, depth=0):
    if e is None:
        return "-"
    if not is_e(e):
        return "?"
    k = e[0]
    if depth > 6:
        return "…"
    if k == "int":
        return str(e[1])
    if k == "bool":
        return "true" if e[1] else "false"
    if k == "var":
        return e[1]
    if k == "path":
        return pname(e[1])
    if k == "bin":
        return "(%s %s %s)" % (render(e[2], depth + 1), e[1], render(e[3], depth + 1))
    if k == "un":
        return "%s%s" % (e[1], render(e[2], depth + 1))
    if k == "cast":
        return "%s as %s" % (render(e[1], depth + 1), e[2])
    if k == "field":
        return "%s.%s" % (render(e[1], depth + 1), e[2])
    if k == "call":
        return "%s(%s)" % (e[1], ", ".join(render(a, depth + 1) for a in e[3]))
    if k == "mcall":
        return "%s.%s(%s)" % (render(e[2], depth + 1), e[1], ", ".join(render(a, depth + 1) for a in e[3]))
    if k == "tuple":
        return "(%s)" % ", ".join(render(a, depth + 1) for a in e[1])
    if k == "if":
        return "if %s {%s} else {%s}" % (render(e[1], depth + 1), render(e[2], depth + 1), render(e[3], depth + 1))
    if k == "block":
        return render(e[2], depth + 1) if not e[1] and e[2] is not None else "{..}"
    if k == "panic":
        return "panic"
    return "<%s>" % k


def strip_block(e):
    """a block with no statements is its tail"""
    while is_e(e) and e[0] == "block" and not e[1] and e[2] is not None:
        e = e[2]
    return e


def bitlen(v):
    return int(v).bit_length() if v > 0 else 0


def fill(v):
    """all bits up to the highest set bit of v"""
    return (1 << bitlen(v)) - 1

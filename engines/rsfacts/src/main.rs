// rsfacts — a rustc_private driver that dumps *facts* about the type-checked
// program (items/layouts, HIR bodies as s-expressions with resolved paths,
// MIR bodies with resolved callees) as JSON, one file per rustc process.
//
// It is injected through RUSTC_WORKSPACE_WRAPPER into `cargo +nightly check`,
// so it sees exactly the crates, features and cfgs of the real build.  It does
// not decide anything: the rules live in /verif/rules/*.py.
#![feature(rustc_private)]

extern crate rustc_abi;
extern crate rustc_ast;
extern crate rustc_driver;
extern crate rustc_hir;
extern crate rustc_interface;
extern crate rustc_middle;
extern crate rustc_session;
extern crate rustc_span;

mod hirdump;
mod items;
mod json;
mod mirdump;

use json::J;
use rustc_driver::Compilation;
use rustc_hir::def_id::DefId;
use rustc_interface::interface::Compiler;
use rustc_middle::ty::TyCtxt;
use std::io::Write;

pub fn path(tcx: TyCtxt<'_>, did: DefId) -> String {
    rustc_middle::ty::print::with_crate_prefix!(rustc_middle::ty::print::with_no_visible_paths!(rustc_middle::ty::print::with_no_trimmed_paths!(
        tcx.def_path_str(did)
    )))
}

pub fn line_of(tcx: TyCtxt<'_>, span: rustc_span::Span) -> (String, usize) {
    let sp = span.source_callsite();
    let sm = tcx.sess.source_map();
    let loc = sm.lookup_char_pos(sp.lo());
    let name = match &loc.file.name {
        rustc_span::FileName::Real(r) => match r.local_path() {
            Some(p) => p.to_string_lossy().to_string(),
            None => format!("{:?}", loc.file.name),
        },
        other => format!("{:?}", other),
    };
    (name, loc.line)
}

pub fn macro_name(span: rustc_span::Span) -> Option<String> {
    if !span.from_expansion() {
        return None;
    }
    let d = span.ctxt().outer_expn_data();
    match d.kind {
        rustc_span::hygiene::ExpnKind::Macro(_, sym) => Some(format!("{}!", sym)),
        rustc_span::hygiene::ExpnKind::Desugaring(k) => Some(format!("desugar:{:?}", k)),
        rustc_span::hygiene::ExpnKind::AstPass(k) => Some(format!("astpass:{:?}", k)),
        rustc_span::hygiene::ExpnKind::Root => None,
    }
}

struct Cb;

impl rustc_driver::Callbacks for Cb {
    fn after_analysis<'tcx>(&mut self, _c: &Compiler, tcx: TyCtxt<'tcx>) -> Compilation {
        let out_dir = match std::env::var("RSFACTS_OUT") {
            Ok(v) => v,
            Err(_) => return Compilation::Continue,
        };
        let krate = tcx.crate_name(rustc_hir::def_id::LOCAL_CRATE).to_string();
        if krate == "build_script_build" {
            return Compilation::Continue;
        }
        let hir_crates = std::env::var("RSFACTS_HIR").unwrap_or_else(|_| "*".to_string());
        let mir_crates = std::env::var("RSFACTS_MIR").unwrap_or_else(|_| "*".to_string());
        let want = |spec: &str| spec == "*" || spec.split(',').any(|c| c == krate);
        let is_test = tcx.sess.opts.test;
        let mut o: Vec<(String, J)> = Vec::new();
        o.push(("crate".into(), J::S(krate.clone())));
        o.push(("is_test".into(), J::B(is_test)));
        o.push((
            "crate_types".into(),
            J::A(tcx.crate_types().iter().map(|t| J::S(format!("{:?}", t))).collect()),
        ));
        o.push(("items".into(), items::dump(tcx)));
        if want(&hir_crates) {
            o.push(("hir".into(), hirdump::dump(tcx)));
        }
        if want(&mir_crates) {
            o.push(("mir".into(), mirdump::dump(tcx)));
        }
        let j = J::O(o);
        let mut s = String::with_capacity(1 << 20);
        j.write(&mut s);
        let kind = if is_test { "test" } else { "lib" };
        let ct = tcx
            .crate_types()
            .iter()
            .map(|t| format!("{:?}", t))
            .collect::<Vec<_>>()
            .join("+");
        let fname = format!("{}/{}.{}.{}.{}.json", out_dir, krate, ct, kind, std::process::id());
        let mut f = std::fs::File::create(&fname).expect("rsfacts: create output");
        f.write_all(s.as_bytes()).expect("rsfacts: write output");
        Compilation::Continue
    }
}

fn main() {
    let mut args: Vec<String> = std::env::args().collect();
    // RUSTC_WORKSPACE_WRAPPER <rustc> <args..>: drop our own argv[0].
    if args.len() > 1 && (args[1].ends_with("rustc") || args[1].contains("/rustc")) {
        args.remove(0);
    }
    let mut cb = Cb;
    rustc_driver::run_compiler(&args, &mut cb);
}

// HIR bodies as s-expressions (JSON arrays, head = tag) with resolved paths.
use crate::json::J;
use crate::{line_of, macro_name, path};
use rustc_hir as hir;
use rustc_hir::def::{DefKind, Res};
use rustc_middle::ty::{TyCtxt, TypeckResults};
use rustc_span::SyntaxContext;

pub fn dump<'tcx>(tcx: TyCtxt<'tcx>) -> J {
    let mut out = Vec::new();
    for ldid in tcx.hir_body_owners() {
        let did = ldid.to_def_id();
        match tcx.def_kind(did) {
            DefKind::Fn | DefKind::AssocFn => {}
            _ => continue,
        }
        let r = std::panic::catch_unwind(std::panic::AssertUnwindSafe(|| {
            let body = tcx.hir_body_owned_by(ldid);
            let tr = tcx.typeck(ldid);
            let d = D { tcx, tr };
            let (f, l) = line_of(tcx, tcx.def_span(did));
            let mut params = Vec::new();
            for p in body.params {
                let t = tr.node_type(p.hir_id);
                params.push(J::A(vec![d.pat(p.pat), J::S(tystr(t))]));
            }
            let fn_ctxt = tcx.def_span(did).ctxt();
            J::O(vec![
                ("path".into(), J::S(path(tcx, did))),
                ("file".into(), J::S(f)),
                ("line".into(), J::I(l as i128)),
                ("params".into(), J::A(params)),
                ("body".into(), d.expr(body.value, fn_ctxt)),
            ])
        }));
        if let Ok(j) = r {
            out.push(j);
        }
    }
    J::A(out)
}

fn tystr(t: rustc_middle::ty::Ty<'_>) -> String {
    rustc_middle::ty::print::with_crate_prefix!(rustc_middle::ty::print::with_no_visible_paths!(rustc_middle::ty::print::with_no_trimmed_paths!(
        t.to_string()
    )))
}

struct D<'tcx> {
    tcx: TyCtxt<'tcx>,
    tr: &'tcx TypeckResults<'tcx>,
}

impl<'tcx> D<'tcx> {
    fn line(&self, sp: rustc_span::Span) -> J {
        J::I(line_of(self.tcx, sp).1 as i128)
    }

    fn res(&self, r: Res) -> J {
        match r {
            Res::Local(hid) => J::tag("local", vec![J::S(self.tcx.hir_name(hid).to_string())]),
            Res::Def(kind, did) => {
                let k = match kind {
                    DefKind::Fn => "fn",
                    DefKind::AssocFn => "fn",
                    DefKind::Const { .. } => "const",
                    DefKind::AssocConst { .. } => "const",
                    DefKind::Static { .. } => "static",
                    DefKind::Ctor(..) => "ctor",
                    DefKind::Struct => "struct",
                    DefKind::Variant => "variant",
                    DefKind::Enum => "enum",
                    DefKind::ConstParam => "constparam",
                    _ => "other",
                };
                J::tag("def", vec![J::s(k), J::S(path(self.tcx, did))])
            }
            Res::SelfCtor(_) => J::tag("def", vec![J::s("selfctor"), J::s("Self")]),
            Res::SelfTyAlias { .. } | Res::SelfTyParam { .. } => J::tag("def", vec![J::s("selfty"), J::s("Self")]),
            other => J::tag("def", vec![J::s("other"), J::S(format!("{:?}", other))]),
        }
    }

    fn qpath(&self, qp: &hir::QPath<'tcx>, hid: hir::HirId) -> J {
        self.res(self.tr.qpath_res(qp, hid))
    }

    fn lit(&self, l: &hir::Lit) -> J {
        use rustc_ast::LitKind;
        match &l.node {
            LitKind::Int(v, _) => J::tag("lit", vec![J::s("int"), J::I(v.get() as i128)]),
            LitKind::Bool(b) => J::tag("lit", vec![J::s("bool"), J::B(*b)]),
            LitKind::Str(s, _) => J::tag("lit", vec![J::s("str"), J::S(s.to_string())]),
            LitKind::Char(c) => J::tag("lit", vec![J::s("char"), J::S(c.to_string())]),
            LitKind::Byte(b) => J::tag("lit", vec![J::s("int"), J::I(*b as i128)]),
            LitKind::Float(s, _) => J::tag("lit", vec![J::s("float"), J::S(s.to_string())]),
            other => J::tag("lit", vec![J::s("other"), J::S(format!("{:?}", other))]),
        }
    }

    fn pat(&self, p: &hir::Pat<'tcx>) -> J {
        use hir::PatKind::*;
        match p.kind {
            Wild | Missing => J::tag("pwild", vec![]),
            Binding(_, _, id, sub) => J::tag(
                "pbind",
                vec![J::S(id.name.to_string()), J::opt(sub.map(|s| self.pat(s)))],
            ),
            Struct(ref qp, fields, _) => J::tag(
                "pstruct",
                vec![
                    self.qpath(qp, p.hir_id),
                    J::A(fields.iter().map(|f| J::A(vec![J::S(f.ident.name.to_string()), self.pat(f.pat)])).collect()),
                ],
            ),
            TupleStruct(ref qp, pats, _) => J::tag(
                "pts",
                vec![self.qpath(qp, p.hir_id), J::A(pats.iter().map(|x| self.pat(x)).collect())],
            ),
            Or(pats) => J::tag("por", vec![J::A(pats.iter().map(|x| self.pat(x)).collect())]),
            Tuple(pats, _) => J::tag("ptuple", vec![J::A(pats.iter().map(|x| self.pat(x)).collect())]),
            Box(x) | Deref(x) => J::tag("pref", vec![self.pat(x)]),
            Ref(x, _, _) => J::tag("pref", vec![self.pat(x)]),
            Expr(pe) => self.patexpr(pe),
            Guard(x, _) => self.pat(x),
            Range(a, b, _) => J::tag(
                "prange",
                vec![J::opt(a.map(|x| self.patexpr(x))), J::opt(b.map(|x| self.patexpr(x)))],
            ),
            Slice(a, m, b) => J::tag(
                "pslice",
                vec![
                    J::A(a.iter().map(|x| self.pat(x)).collect()),
                    J::opt(m.map(|x| self.pat(x))),
                    J::A(b.iter().map(|x| self.pat(x)).collect()),
                ],
            ),
            Never | Err(_) => J::tag("pwild", vec![]),
        }
    }

    fn patexpr(&self, pe: &hir::PatExpr<'tcx>) -> J {
        match &pe.kind {
            hir::PatExprKind::Lit { lit, negated } => {
                if *negated {
                    J::tag("un", vec![J::s("Neg"), self.lit(lit)])
                } else {
                    self.lit(lit)
                }
            }
            hir::PatExprKind::Path(qp) => J::tag("ppath", vec![self.qpath(qp, pe.hir_id)]),
        }
    }

    fn block(&self, b: &hir::Block<'tcx>, ctxt: SyntaxContext) -> J {
        let mut stmts = Vec::new();
        for s in b.stmts {
            match s.kind {
                hir::StmtKind::Let(l) => {
                    stmts.push(J::tag(
                        "let",
                        vec![
                            self.pat(l.pat),
                            J::opt(l.init.map(|e| self.expr(e, ctxt))),
                            J::opt(l.els.map(|e| self.block(e, ctxt))),
                            self.line(l.span),
                        ],
                    ));
                }
                hir::StmtKind::Item(_) => {}
                hir::StmtKind::Expr(e) | hir::StmtKind::Semi(e) => stmts.push(self.expr(e, ctxt)),
            }
        }
        J::tag("block", vec![J::A(stmts), J::opt(b.expr.map(|e| self.expr(e, ctxt)))])
    }

    fn expr(&self, e: &hir::Expr<'tcx>, parent_ctxt: SyntaxContext) -> J {
        let ctxt = e.span.ctxt();
        let inner = self.expr_inner(e, ctxt);
        if e.span.from_expansion() && ctxt != parent_ctxt {
            if let Some(name) = macro_name(e.span) {
                return J::tag("macro", vec![J::S(name), inner, self.line(e.span)]);
            }
        }
        inner
    }

    fn expr_inner(&self, e: &hir::Expr<'tcx>, ctxt: SyntaxContext) -> J {
        use hir::ExprKind::*;
        match e.kind {
            ConstBlock(_) => J::tag("other", vec![J::s("constblock")]),
            Array(xs) => J::tag("array", vec![J::A(xs.iter().map(|x| self.expr(x, ctxt)).collect())]),
            Call(f, args) => {
                let callee = match f.kind {
                    Path(ref qp) => self.qpath(qp, f.hir_id),
                    _ => self.expr(f, ctxt),
                };
                J::tag(
                    "call",
                    vec![self.line(e.span), callee, J::A(args.iter().map(|x| self.expr(x, ctxt)).collect())],
                )
            }
            MethodCall(seg, recv, args, _) => {
                let did = self.tr.type_dependent_def_id(e.hir_id);
                let recv_ty = self.tr.expr_ty_adjusted(recv);
                J::tag(
                    "mcall",
                    vec![
                        self.line(e.span),
                        match did {
                            Some(d) => J::S(path(self.tcx, d)),
                            None => J::Null,
                        },
                        J::S(seg.ident.name.to_string()),
                        self.expr(recv, ctxt),
                        J::A(args.iter().map(|x| self.expr(x, ctxt)).collect()),
                        J::S(tystr(recv_ty)),
                    ],
                )
            }
            Use(x, _) => self.expr(x, ctxt),
            Tup(xs) => J::tag("tup", vec![J::A(xs.iter().map(|x| self.expr(x, ctxt)).collect())]),
            Binary(op, a, b) => J::tag(
                "bin",
                vec![J::S(format!("{:?}", op.node)), self.expr(a, ctxt), self.expr(b, ctxt)],
            ),
            Unary(op, a) => J::tag("un", vec![J::S(format!("{:?}", op)), self.expr(a, ctxt)]),
            Lit(l) => self.lit(&l),
            Cast(x, _) => J::tag("cast", vec![self.expr(x, ctxt), J::S(tystr(self.tr.expr_ty(e)))]),
            Type(x, _) => self.expr(x, ctxt),
            DropTemps(x) => self.expr(x, ctxt),
            Let(l) => J::tag("letx", vec![self.pat(l.pat), self.expr(l.init, ctxt)]),
            If(c, t, el) => J::tag(
                "if",
                vec![self.expr(c, ctxt), self.expr(t, ctxt), J::opt(el.map(|x| self.expr(x, ctxt)))],
            ),
            Loop(b, _, src, _) => J::tag("loop", vec![J::S(format!("{:?}", src)), self.block(b, ctxt)]),
            Match(s, arms, src) => {
                let mut av = Vec::new();
                for a in arms {
                    av.push(J::A(vec![
                        self.pat(a.pat),
                        J::opt(a.guard.map(|g| self.expr(g, ctxt))),
                        self.expr(a.body, ctxt),
                    ]));
                }
                J::tag("match", vec![self.expr(s, ctxt), J::A(av), J::S(format!("{:?}", src))])
            }
            Closure(c) => {
                let body = self.tcx.hir_body(c.body);
                let mut ps = Vec::new();
                for p in body.params {
                    ps.push(self.pat(p.pat));
                }
                J::tag(
                    "closure",
                    vec![J::S(path(self.tcx, c.def_id.to_def_id())), J::A(ps), self.expr(body.value, ctxt)],
                )
            }
            Block(b, _) => self.block(b, ctxt),
            Assign(l, r, _) => J::tag("assign", vec![self.expr(l, ctxt), self.expr(r, ctxt)]),
            AssignOp(op, l, r) => J::tag(
                "assignop",
                vec![J::S(format!("{:?}", op.node)), self.expr(l, ctxt), self.expr(r, ctxt)],
            ),
            Field(x, id) => J::tag(
                "field",
                vec![self.expr(x, ctxt), J::S(id.name.to_string()), J::S(tystr(self.tr.expr_ty_adjusted(x)))],
            ),
            Index(a, i, _) => J::tag("index", vec![self.expr(a, ctxt), self.expr(i, ctxt)]),
            Path(ref qp) => self.qpath(qp, e.hir_id),
            AddrOf(_, m, x) => J::tag("addr", vec![J::B(m.is_mut()), self.expr(x, ctxt)]),
            Break(_, x) => J::tag("break", vec![J::opt(x.map(|x| self.expr(x, ctxt)))]),
            Continue(_) => J::tag("continue", vec![]),
            Ret(x) => J::tag("ret", vec![J::opt(x.map(|x| self.expr(x, ctxt)))]),
            Become(x) => J::tag("ret", vec![self.expr(x, ctxt)]),
            InlineAsm(_) => J::tag("other", vec![J::s("asm")]),
            OffsetOf(..) => J::tag("other", vec![J::s("offset_of")]),
            Struct(qp, fields, tail) => {
                let base = match tail {
                    hir::StructTailExpr::Base(b) => Some(self.expr(b, ctxt)),
                    _ => None,
                };
                J::tag(
                    "struct",
                    vec![
                        self.qpath(qp, e.hir_id),
                        J::A(fields
                            .iter()
                            .map(|f| J::A(vec![J::S(f.ident.name.to_string()), self.expr(f.expr, ctxt)]))
                            .collect()),
                        J::opt(base),
                    ],
                )
            }
            Repeat(x, _) => J::tag("repeat", vec![self.expr(x, ctxt)]),
            Yield(x, _) => self.expr(x, ctxt),
            UnsafeBinderCast(_, x, _) => self.expr(x, ctxt),
            Err(_) => J::tag("other", vec![J::s("err")]),
        }
    }
}

// MIR bodies: blocks, statements (use/def structure), terminators with
// resolved callees and constant operands.
use crate::json::J;
use crate::{line_of, macro_name, path};
use rustc_hir::def::DefKind;
use rustc_middle::mir::{self, Operand, Place, Rvalue, StatementKind, TerminatorKind};
use rustc_middle::ty::{self, TyCtxt};

fn tystr(t: ty::Ty<'_>) -> String {
    rustc_middle::ty::print::with_crate_prefix!(rustc_middle::ty::print::with_no_visible_paths!(rustc_middle::ty::print::with_no_trimmed_paths!(
        t.to_string()
    )))
}

pub fn dump<'tcx>(tcx: TyCtxt<'tcx>) -> J {
    let mut out = Vec::new();
    for ldid in tcx.mir_keys(()) {
        let did = ldid.to_def_id();
        match tcx.def_kind(did) {
            DefKind::Fn | DefKind::AssocFn | DefKind::Closure => {}
            _ => continue,
        }
        // constructors of tuple structs etc. have no HIR body
        if tcx.hir_maybe_body_owned_by(*ldid).is_none() {
            continue;
        }
        // a failure while dumping one body must not take the whole crate's facts down
        let r = std::panic::catch_unwind(std::panic::AssertUnwindSafe(|| {
            let body = tcx.optimized_mir(did);
            let d = D { tcx, body, did, env: ty::TypingEnv::post_analysis(tcx, did) };
            d.body()
        }));
        match r {
            Ok(j) => out.push(j),
            Err(_) => out.push(J::O(vec![
                ("path".into(), J::S(path(tcx, did))),
                ("dump_failed".into(), J::B(true)),
                ("file".into(), J::s("")),
                ("line".into(), J::I(0)),
                ("argc".into(), J::I(0)),
                ("locals".into(), J::A(vec![])),
                ("blocks".into(), J::A(vec![])),
            ])),
        }
    }
    J::A(out)
}

struct D<'a, 'tcx> {
    tcx: TyCtxt<'tcx>,
    body: &'a mir::Body<'tcx>,
    did: rustc_hir::def_id::DefId,
    env: ty::TypingEnv<'tcx>,
}

impl<'a, 'tcx> D<'a, 'tcx> {
    fn body(&self) -> J {
        let tcx = self.tcx;
        let (f, l) = line_of(tcx, tcx.def_span(self.did));
        let mut names: Vec<Option<String>> = vec![None; self.body.local_decls.len()];
        for vdi in &self.body.var_debug_info {
            if let mir::VarDebugInfoContents::Place(p) = &vdi.value {
                if p.projection.is_empty() {
                    names[p.local.as_usize()] = Some(vdi.name.to_string());
                }
            }
        }
        let mut locals = Vec::new();
        for (i, ld) in self.body.local_decls.iter().enumerate() {
            locals.push(J::A(vec![
                J::S(tystr(ld.ty)),
                match &names[i] {
                    Some(n) => J::S(n.clone()),
                    None => J::Null,
                },
            ]));
        }
        let mut blocks = Vec::new();
        for (_bb, data) in self.body.basic_blocks.iter_enumerated() {
            let mut stmts = Vec::new();
            for s in &data.statements {
                if let Some(j) = self.stmt(s) {
                    stmts.push(j);
                }
            }
            let term = self.term(data.terminator());
            blocks.push(J::O(vec![
                ("s".into(), J::A(stmts)),
                ("t".into(), term),
                ("c".into(), J::B(data.is_cleanup)),
            ]));
        }
        let mut o = vec![
            ("path".into(), J::S(path(tcx, self.did))),
            ("file".into(), J::S(f)),
            ("line".into(), J::I(l as i128)),
            ("argc".into(), J::I(self.body.arg_count as i128)),
            ("locals".into(), J::A(locals)),
            ("blocks".into(), J::A(blocks)),
        ];
        if tcx.def_kind(self.did) == DefKind::Closure {
            o.push(("closure".into(), J::B(true)));
            o.push(("parent".into(), J::S(path(tcx, tcx.typeck_root_def_id(self.did)))));
        }
        J::O(o)
    }

    fn place(&self, p: &Place<'tcx>) -> J {
        let mut proj = Vec::new();
        let mut pty = mir::PlaceTy::from_ty(self.body.local_decls[p.local].ty);
        for elem in p.projection.iter() {
            let s = match elem {
                mir::ProjectionElem::Deref => "*".to_string(),
                mir::ProjectionElem::Field(idx, _) => {
                    let mut name = None;
                    if let ty::Adt(adt, _) = pty.ty.kind() {
                        let v = match pty.variant_index {
                            Some(vi) => Some(adt.variant(vi)),
                            None => {
                                if adt.is_enum() {
                                    None
                                } else {
                                    Some(adt.non_enum_variant())
                                }
                            }
                        };
                        if let Some(v) = v {
                            if let Some(fd) = v.fields.get(idx) {
                                name = Some(fd.name.to_string());
                            }
                        }
                    }
                    match name {
                        Some(n) => format!(".{}", n),
                        None => format!(".{}", idx.as_usize()),
                    }
                }
                mir::ProjectionElem::Index(l) => format!("[_{}]", l.as_usize()),
                mir::ProjectionElem::ConstantIndex { offset, .. } => format!("[#{}]", offset),
                mir::ProjectionElem::Subslice { .. } => "[..]".to_string(),
                mir::ProjectionElem::Downcast(sym, vi) => match sym {
                    Some(s) => format!("@{}", s),
                    None => format!("@{}", vi.as_usize()),
                },
                mir::ProjectionElem::OpaqueCast(_) => "as".to_string(),
                mir::ProjectionElem::UnwrapUnsafeBinder(_) => "unwrap".to_string(),
            };
            proj.push(J::S(s));
            pty = pty.projection_ty(self.tcx, elem);
        }
        J::A(vec![J::I(p.local.as_usize() as i128), J::A(proj)])
    }

    fn callee(&self, did: rustc_hir::def_id::DefId, args: ty::GenericArgsRef<'tcx>) -> J {
        let tcx = self.tcx;
        let mut o = vec![("d".into(), J::S(path(tcx, did)))];
        let gs = rustc_middle::ty::print::with_crate_prefix!(rustc_middle::ty::print::with_no_visible_paths!(rustc_middle::ty::print::with_no_trimmed_paths!(
            format!("{:?}", args)
        )));
        if args.len() > 0 {
            o.push(("g".into(), J::S(gs)));
        }
        if let Some(tr) = tcx.trait_of_assoc(did) {
            o.push(("tr".into(), J::S(path(tcx, tr))));
        }
        match ty::Instance::try_resolve(tcx, self.env, did, args) {
            Ok(Some(inst)) => match inst.def {
                ty::InstanceKind::Item(d) => {
                    o.push(("r".into(), J::S(path(tcx, d))));
                }
                ty::InstanceKind::Virtual(d, _) => {
                    o.push(("k".into(), J::s("virtual")));
                    o.push(("r".into(), J::S(path(tcx, d))));
                }
                ty::InstanceKind::Intrinsic(d) => {
                    o.push(("k".into(), J::s("intrinsic")));
                    o.push(("r".into(), J::S(path(tcx, d))));
                }
                ty::InstanceKind::ClosureOnceShim { call_once, .. } => {
                    o.push(("k".into(), J::s("closure_once_shim")));
                    o.push(("r".into(), J::S(path(tcx, call_once))));
                }
                ty::InstanceKind::FnPtrShim(d, _) => {
                    o.push(("k".into(), J::s("fnptr_shim")));
                    o.push(("r".into(), J::S(path(tcx, d))));
                }
                ty::InstanceKind::DropGlue(_, t) => {
                    o.push(("k".into(), J::s("drop_glue")));
                    if let Some(t) = t {
                        o.push(("dropty".into(), J::S(tystr(t))));
                    }
                }
                other => {
                    o.push(("k".into(), J::S(format!("shim"))));
                    o.push(("r".into(), J::S(path(tcx, other.def_id()))));
                }
            },
            _ => {
                o.push(("k".into(), J::s("unresolved")));
            }
        }
        // closure call: Fn*::call* on a closure type → the closure body
        if args.len() > 0 {
            if let Some(t) = args[0].as_type() {
                let t = match t.kind() {
                    ty::Ref(_, inner, _) => *inner,
                    _ => t,
                };
                if let ty::Closure(cd, _) = t.kind() {
                    o.push(("closure".into(), J::S(path(tcx, *cd))));
                }
            }
        }
        J::O(o)
    }

    fn constant(&self, c: &mir::ConstOperand<'tcx>) -> J {
        let tcx = self.tcx;
        let t = c.const_.ty();
        let mut o: Vec<(String, J)> = vec![("ty".into(), J::S(tystr(t)))];
        if let ty::FnDef(did, args) = t.kind() {
            o.push(("fn".into(), self.callee(*did, args)));
            return J::tag("k", vec![J::O(o)]);
        }
        if let mir::Const::Unevaluated(uv, _) = c.const_ {
            o.push(("const".into(), J::S(path(tcx, uv.def))));
        }
        if t.is_integral() || t.is_bool() || t.is_char() {
            if let Some(s) = c.const_.try_eval_scalar_int(tcx, self.env) {
                let bits = s.to_bits_unchecked();
                let v: i128 = if t.is_signed() { s.size().sign_extend(bits) as i128 } else { bits as i128 };
                o.push(("v".into(), J::I(v)));
            }
        } else if let ty::Adt(adt, _) = t.kind() {
            // fieldless enum constants (`const X: E = E::A`, promoted values)
            if adt.is_enum() {
                if let Some(s) = c.const_.try_eval_scalar_int(tcx, self.env) {
                    o.push(("v".into(), J::I(s.to_bits_unchecked() as i128)));
                }
            }
        } else if let ty::Ref(_, inner, _) = t.kind() {
            if inner.is_str() {
                if let mir::Const::Val(mir::ConstValue::Slice { alloc_id, meta }, _) = c.const_ {
                    let alloc = tcx.global_alloc(alloc_id).unwrap_memory();
                    let bytes = alloc
                        .inner()
                        .inspect_with_uninit_and_ptr_outside_interpreter(0..(meta as usize));
                    o.push(("str".into(), J::S(String::from_utf8_lossy(bytes).to_string())));
                }
            }
        }
        J::tag("k", vec![J::O(o)])
    }

    fn operand(&self, op: &Operand<'tcx>) -> J {
        match op {
            Operand::Copy(p) => J::tag("c", vec![self.place(p)]),
            Operand::Move(p) => J::tag("m", vec![self.place(p)]),
            Operand::Constant(c) => self.constant(c),
            _ => J::tag("k", vec![J::O(vec![("ty".into(), J::s("runtime_checks"))])]),
        }
    }

    fn rvalue(&self, rv: &Rvalue<'tcx>) -> J {
        match rv {
            Rvalue::Use(op, ..) => J::tag("use", vec![self.operand(op)]),
            Rvalue::Repeat(op, _) => J::tag("repeat", vec![self.operand(op)]),
            Rvalue::Ref(_, bk, p) => J::tag(
                "ref",
                vec![J::B(matches!(bk, mir::BorrowKind::Mut { .. })), self.place(p)],
            ),
            Rvalue::ThreadLocalRef(d) => J::tag("tls", vec![J::S(path(self.tcx, *d))]),
            Rvalue::RawPtr(_, p) => J::tag("rawptr", vec![self.place(p)]),
            Rvalue::Cast(k, op, t) => {
                let ks = match k {
                    mir::CastKind::PointerCoercion(pc, _) => format!("ptr:{:?}", pc),
                    other => format!("{:?}", other),
                };
                J::tag("cast", vec![J::S(ks), self.operand(op), J::S(tystr(*t))])
            }
            Rvalue::BinaryOp(op, b) => J::tag(
                "bin",
                vec![J::S(format!("{:?}", op)), self.operand(&b.0), self.operand(&b.1)],
            ),
            Rvalue::UnaryOp(op, a) => J::tag("un", vec![J::S(format!("{:?}", op)), self.operand(a)]),
            Rvalue::Discriminant(p) => J::tag("discr", vec![self.place(p)]),
            Rvalue::Aggregate(kind, ops) => {
                let k = match &**kind {
                    mir::AggregateKind::Array(_) => J::A(vec![J::s("array")]),
                    mir::AggregateKind::Tuple => J::A(vec![J::s("tuple")]),
                    mir::AggregateKind::Adt(did, vi, _, _, _) => {
                        let adt = self.tcx.adt_def(*did);
                        J::A(vec![
                            J::s("adt"),
                            J::S(path(self.tcx, *did)),
                            J::S(adt.variant(*vi).name.to_string()),
                        ])
                    }
                    mir::AggregateKind::Closure(did, _) => J::A(vec![J::s("closure"), J::S(path(self.tcx, *did))]),
                    mir::AggregateKind::Coroutine(did, _) | mir::AggregateKind::CoroutineClosure(did, _) => {
                        J::A(vec![J::s("coroutine"), J::S(path(self.tcx, *did))])
                    }
                    mir::AggregateKind::RawPtr(..) => J::A(vec![J::s("rawptr")]),
                };
                J::tag("agg", vec![k, J::A(ops.iter().map(|o| self.operand(o)).collect())])
            }
            Rvalue::CopyForDeref(p) => J::tag("use", vec![J::tag("c", vec![self.place(p)])]),
            Rvalue::WrapUnsafeBinder(op, _) => J::tag("use", vec![self.operand(op)]),
        }
    }

    fn stmt(&self, s: &mir::Statement<'tcx>) -> Option<J> {
        match &s.kind {
            StatementKind::Assign(b) => {
                let (p, rv) = &**b;
                Some(J::tag("a", vec![self.place(p), self.rvalue(rv), J::I(line_of(self.tcx, s.source_info.span).1 as i128)]))
            }
            StatementKind::SetDiscriminant { place, variant_index } => Some(J::tag(
                "setdiscr",
                vec![self.place(place), J::I(variant_index.as_usize() as i128)],
            )),
            StatementKind::StorageLive(l) => Some(J::tag("sl", vec![J::I(l.as_usize() as i128)])),
            StatementKind::StorageDead(l) => Some(J::tag("sd", vec![J::I(l.as_usize() as i128)])),
            StatementKind::Intrinsic(i) => match &**i {
                mir::NonDivergingIntrinsic::Assume(op) => Some(J::tag("assume", vec![self.operand(op)])),
                mir::NonDivergingIntrinsic::CopyNonOverlapping(c) => Some(J::tag(
                    "copy_nonoverlapping",
                    vec![self.operand(&c.src), self.operand(&c.dst), self.operand(&c.count)],
                )),
            },
            _ => None,
        }
    }

    fn term(&self, t: &mir::Terminator<'tcx>) -> J {
        let bb = |b: mir::BasicBlock| J::I(b.as_usize() as i128);
        let unwind = |u: &mir::UnwindAction| match u {
            mir::UnwindAction::Cleanup(b) => J::I(b.as_usize() as i128),
            _ => J::Null,
        };
        match &t.kind {
            TerminatorKind::Goto { target } => J::tag("goto", vec![bb(*target)]),
            TerminatorKind::SwitchInt { discr, targets } => {
                let mut arms = Vec::new();
                for (v, tb) in targets.iter() {
                    arms.push(J::A(vec![J::I(v as i128), bb(tb)]));
                }
                J::tag("switch", vec![self.operand(discr), J::A(arms), bb(targets.otherwise())])
            }
            TerminatorKind::UnwindResume => J::tag("resume", vec![]),
            TerminatorKind::UnwindTerminate(_) => J::tag("abort", vec![]),
            TerminatorKind::Return => J::tag("ret", vec![]),
            TerminatorKind::Unreachable => J::tag("unreachable", vec![]),
            TerminatorKind::Drop { place, target, unwind: u, .. } => {
                let pty = place.ty(self.body, self.tcx).ty;
                J::tag("drop", vec![self.place(place), bb(*target), unwind(u), J::S(tystr(pty))])
            }
            TerminatorKind::Call { func, args, destination, target, unwind: u, fn_span, .. } => {
                let f = self.operand(func);
                let a = J::A(args.iter().map(|x| self.operand(&x.node)).collect());
                let (_, line) = line_of(self.tcx, *fn_span);
                let mut o = vec![
                    ("f".into(), f),
                    ("a".into(), a),
                    ("d".into(), self.place(destination)),
                    ("t".into(), match target { Some(b) => bb(*b), None => J::Null }),
                    ("u".into(), unwind(u)),
                    ("l".into(), J::I(line as i128)),
                ];
                if let Some(m) = macro_name(*fn_span) {
                    o.push(("m".into(), J::S(m)));
                }
                J::tag("call", vec![J::O(o)])
            }
            TerminatorKind::TailCall { func, args, fn_span } => {
                let f = self.operand(func);
                let a = J::A(args.iter().map(|x| self.operand(&x.node)).collect());
                let (_, line) = line_of(self.tcx, *fn_span);
                J::tag(
                    "call",
                    vec![J::O(vec![
                        ("f".into(), f),
                        ("a".into(), a),
                        ("d".into(), J::A(vec![J::I(0), J::A(vec![])])),
                        ("t".into(), J::Null),
                        ("u".into(), J::Null),
                        ("l".into(), J::I(line as i128)),
                        ("tail".into(), J::B(true)),
                    ])],
                )
            }
            TerminatorKind::Assert { cond, expected, target, unwind: u, msg } => {
                let kind = format!("{:?}", std::mem::discriminant(&**msg));
                let _ = kind;
                let m = match &**msg {
                    mir::AssertKind::BoundsCheck { .. } => "bounds",
                    mir::AssertKind::Overflow(..) => "overflow",
                    mir::AssertKind::OverflowNeg(..) => "overflow_neg",
                    mir::AssertKind::DivisionByZero(..) => "div_zero",
                    mir::AssertKind::RemainderByZero(..) => "rem_zero",
                    _ => "other",
                };
                J::tag("assert", vec![self.operand(cond), J::B(*expected), bb(*target), unwind(u), J::s(m)])
            }
            TerminatorKind::FalseEdge { real_target, .. } => J::tag("goto", vec![bb(*real_target)]),
            TerminatorKind::FalseUnwind { real_target, .. } => J::tag("goto", vec![bb(*real_target)]),
            TerminatorKind::Yield { resume, .. } => J::tag("goto", vec![bb(*resume)]),
            TerminatorKind::CoroutineDrop => J::tag("ret", vec![]),
            TerminatorKind::InlineAsm { targets, .. } => {
                J::tag("asm", vec![J::A(targets.iter().map(|b| bb(*b)).collect())])
            }
        }
    }
}

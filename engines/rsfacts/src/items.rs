// Item facts: ADTs with layouts and discriminants, evaluated constants,
// functions with signatures / containers / export names, traits and impls.
use crate::json::J;
use crate::{line_of, path};
use rustc_hir::def::DefKind;
use rustc_middle::ty::{self, TyCtxt};

fn tystr(t: ty::Ty<'_>) -> String {
    rustc_middle::ty::print::with_crate_prefix!(rustc_middle::ty::print::with_no_visible_paths!(rustc_middle::ty::print::with_no_trimmed_paths!(
        t.to_string()
    )))
}

pub fn dump<'tcx>(tcx: TyCtxt<'tcx>) -> J {
    let mut adts = Vec::new();
    let mut consts = Vec::new();
    let mut fns = Vec::new();
    let mut traits = Vec::new();
    let mut impls = Vec::new();
    let mut statics = Vec::new();

    for ldid in tcx.hir_crate_items(()).definitions() {
        let did = ldid.to_def_id();
        let kind = tcx.def_kind(did);
        match kind {
            DefKind::Struct | DefKind::Enum | DefKind::Union => {
                adts.push(dump_adt(tcx, did));
            }
            DefKind::Const { .. } | DefKind::AssocConst { .. } => {
                if let Some(j) = dump_const(tcx, did) {
                    consts.push(j);
                }
            }
            DefKind::Static { .. } => {
                let t = tcx.type_of(did).instantiate_identity().skip_normalization();
                let (f, l) = line_of(tcx, tcx.def_span(did));
                statics.push(J::O(vec![
                    ("path".into(), J::S(path(tcx, did))),
                    ("ty".into(), J::S(tystr(t))),
                    ("file".into(), J::S(f)),
                    ("line".into(), J::I(l as i128)),
                ]));
            }
            DefKind::Fn | DefKind::AssocFn => {
                fns.push(dump_fn(tcx, did));
            }
            DefKind::Trait => {
                let mut ms = Vec::new();
                for it in tcx.associated_items(did).in_definition_order() {
                    if let ty::AssocKind::Fn { .. } = it.kind {
                        ms.push(J::A(vec![
                            J::S(it.name().to_string()),
                            J::B(it.defaultness(tcx).has_value()),
                        ]));
                    }
                }
                traits.push(J::O(vec![
                    ("path".into(), J::S(path(tcx, did))),
                    ("methods".into(), J::A(ms)),
                ]));
            }
            DefKind::Impl { of_trait } => {
                let self_ty = tcx.type_of(did).instantiate_identity().skip_normalization();
                let tr = if of_trait {
                    let r = tcx.impl_trait_ref(did).instantiate_identity().skip_normalization();
                    Some(J::S(path(tcx, r.def_id)))
                } else {
                    None
                };
                let mut ms = Vec::new();
                for it in tcx.associated_items(did).in_definition_order() {
                    if let ty::AssocKind::Fn { .. } = it.kind {
                        ms.push(J::A(vec![J::S(it.name().to_string()), J::S(path(tcx, it.def_id))]));
                    }
                }
                let (f, l) = line_of(tcx, tcx.def_span(did));
                impls.push(J::O(vec![
                    ("self_ty".into(), J::S(tystr(self_ty))),
                    ("trait".into(), J::opt(tr)),
                    ("methods".into(), J::A(ms)),
                    ("file".into(), J::S(f)),
                    ("line".into(), J::I(l as i128)),
                ]));
            }
            _ => {}
        }
    }
    J::O(vec![
        ("adts".into(), J::A(adts)),
        ("consts".into(), J::A(consts)),
        ("statics".into(), J::A(statics)),
        ("fns".into(), J::A(fns)),
        ("traits".into(), J::A(traits)),
        ("impls".into(), J::A(impls)),
    ])
}

fn dump_adt<'tcx>(tcx: TyCtxt<'tcx>, did: rustc_hir::def_id::DefId) -> J {
    let adt = tcx.adt_def(did);
    let generic = tcx.generics_of(did).count() > 0;
    let repr = adt.repr();
    let mut o: Vec<(String, J)> = Vec::new();
    let (f, l) = line_of(tcx, tcx.def_span(did));
    o.push(("path".into(), J::S(path(tcx, did))));
    o.push(("kind".into(), J::s(if adt.is_enum() { "enum" } else if adt.is_union() { "union" } else { "struct" })));
    o.push(("file".into(), J::S(f)));
    o.push(("line".into(), J::I(l as i128)));
    o.push(("repr_c".into(), J::B(repr.c())));
    o.push(("repr_transparent".into(), J::B(repr.transparent())));
    o.push(("repr_int".into(), match repr.int { Some(i) => J::S(format!("{:?}", i)), None => J::Null }));
    o.push(("generic".into(), J::B(generic)));
    // derives / trait impls are found through `impls`.
    let mut offsets: Vec<Option<u64>> = Vec::new();
    if !generic {
        let t = tcx.type_of(did).instantiate_identity().skip_normalization();
        if let Ok(layout) = tcx.layout_of(ty::TypingEnv::fully_monomorphized().as_query_input(t)) {
            o.push(("size".into(), J::I(layout.size.bytes() as i128)));
            o.push(("align".into(), J::I(layout.align.abi.bytes() as i128)));
            if adt.is_struct() {
                let n = adt.non_enum_variant().fields.len();
                for i in 0..n {
                    offsets.push(Some(layout.fields.offset(i).bytes()));
                }
            }
        }
    }
    let mut variants = Vec::new();
    let discrs: Vec<u128> = if adt.is_enum() {
        adt.discriminants(tcx).map(|(_, d)| d.val).collect()
    } else {
        Vec::new()
    };
    for (vi, v) in adt.variants().iter().enumerate() {
        let mut fields = Vec::new();
        for (fi, fd) in v.fields.iter().enumerate() {
            let ft = tcx.type_of(fd.did).instantiate_identity().skip_normalization();
            let mut fo = vec![
                ("name".into(), J::S(fd.name.to_string())),
                ("ty".into(), J::S(tystr(ft))),
                ("pub".into(), J::B(fd.vis.is_public())),
            ];
            if adt.is_struct() {
                if let Some(Some(off)) = offsets.get(fi) {
                    fo.push(("offset".into(), J::I(*off as i128)));
                }
                if !generic {
                    if let Ok(fl) = tcx.layout_of(ty::TypingEnv::fully_monomorphized().as_query_input(ft)) {
                        fo.push(("size".into(), J::I(fl.size.bytes() as i128)));
                    }
                }
            }
            fields.push(J::O(fo));
        }
        let mut vo = vec![
            ("name".into(), J::S(v.name.to_string())),
            ("ctor".into(), match v.ctor_kind() { Some(k) => J::S(format!("{:?}", k)), None => J::s("Struct") }),
            ("fields".into(), J::A(fields)),
        ];
        if adt.is_enum() {
            vo.push(("discr".into(), J::I(discrs[vi] as i128)));
        }
        variants.push(J::O(vo));
    }
    o.push(("variants".into(), J::A(variants)));
    // attributes we care about: #[ast_union_kind(..)] etc are proc-macro helper
    // attributes and survive expansion on the variants — dumped textually.
    J::O(o)
}

fn dump_const<'tcx>(tcx: TyCtxt<'tcx>, did: rustc_hir::def_id::DefId) -> Option<J> {
    // anonymous consts and generic contexts cannot be evaluated here
    if tcx.generics_of(did).count() > 0 {
        return None;
    }
    if let Some(p) = tcx.opt_parent(did) {
        if matches!(tcx.def_kind(p), DefKind::Impl { .. } | DefKind::Trait) && tcx.generics_of(p).count() > 0 {
            return None;
        }
    }
    let t = tcx.type_of(did).instantiate_identity().skip_normalization();
    let mut o = vec![("path".into(), J::S(path(tcx, did))), ("ty".into(), J::S(tystr(t)))];
    let (f, l) = line_of(tcx, tcx.def_span(did));
    o.push(("file".into(), J::S(f)));
    o.push(("line".into(), J::I(l as i128)));
    let scalar_ok = t.is_integral() || t.is_bool() || t.is_char();
    if scalar_ok {
        if let Ok(val) = tcx.const_eval_poly(did) {
            if let Some(s) = val.try_to_scalar_int() {
                let bits = s.to_bits_unchecked();
                let size = s.size();
                let v: i128 = if t.is_signed() { size.sign_extend(bits) as i128 } else { bits as i128 };
                o.push(("value".into(), J::I(v)));
            }
        }
    }
    Some(J::O(o))
}

fn dump_fn<'tcx>(tcx: TyCtxt<'tcx>, did: rustc_hir::def_id::DefId) -> J {
    let mut o: Vec<(String, J)> = Vec::new();
    let (f, l) = line_of(tcx, tcx.def_span(did));
    o.push(("path".into(), J::S(path(tcx, did))));
    o.push(("name".into(), J::S(tcx.item_name(did).to_string())));
    o.push(("file".into(), J::S(f)));
    o.push(("line".into(), J::I(l as i128)));
    let sig = tcx.fn_sig(did).instantiate_identity().skip_normalization().skip_binder();
    o.push(("inputs".into(), J::A(sig.inputs().iter().map(|t| J::S(tystr(*t))).collect())));
    o.push(("output".into(), J::S(tystr(sig.output()))));
    o.push(("abi".into(), J::S(format!("{:?}", sig.abi()))));
    o.push(("pub".into(), J::B(tcx.visibility(did).is_public())));
    o.push(("vis".into(), J::S(format!("{:?}", tcx.visibility(did)))));
    let attrs = tcx.codegen_fn_attrs(did);
    if let Some(sym) = attrs.symbol_name {
        o.push(("symbol".into(), J::S(sym.to_string())));
    }
    // container
    if let Some(ai) = tcx.opt_associated_item(did) {
        let cid = ai.container_id(tcx);
        match tcx.def_kind(cid) {
            DefKind::Trait => {
                o.push(("container".into(), J::s("trait")));
                o.push(("trait".into(), J::S(path(tcx, cid))));
                o.push(("has_default".into(), J::B(ai.defaultness(tcx).has_value())));
            }
            DefKind::Impl { of_trait } => {
                let st = tcx.type_of(cid).instantiate_identity().skip_normalization();
                o.push(("container".into(), J::s("impl")));
                o.push(("self_ty".into(), J::S(tystr(st))));
                if of_trait {
                    let r = tcx.impl_trait_ref(cid).instantiate_identity().skip_normalization();
                    o.push(("trait".into(), J::S(path(tcx, r.def_id))));
                }
            }
            _ => {}
        }
    }
    // parameter names (local functions with a body)
    if let Some(ldid) = did.as_local() {
        if let Some(body) = tcx.hir_maybe_body_owned_by(ldid) {
            let mut names = Vec::new();
            for p in body.params {
                names.push(match p.pat.kind {
                    rustc_hir::PatKind::Binding(_, _, id, _) => J::S(id.name.to_string()),
                    _ => J::s("_"),
                });
            }
            o.push(("params".into(), J::A(names)));
            o.push(("has_body".into(), J::B(true)));
        } else {
            o.push(("has_body".into(), J::B(false)));
        }
    }
    J::O(o)
}

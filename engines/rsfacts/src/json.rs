// Minimal JSON value + writer (the driver has zero cargo dependencies).
pub enum J {
    Null,
    B(bool),
    I(i128),
    S(String),
    A(Vec<J>),
    O(Vec<(String, J)>),
}

impl J {
    pub fn s(x: &str) -> J {
        J::S(x.to_string())
    }
    pub fn tag(t: &str, mut rest: Vec<J>) -> J {
        let mut v = Vec::with_capacity(rest.len() + 1);
        v.push(J::S(t.to_string()));
        v.append(&mut rest);
        J::A(v)
    }
    pub fn opt(x: Option<J>) -> J {
        x.unwrap_or(J::Null)
    }
    pub fn write(&self, out: &mut String) {
        match self {
            J::Null => out.push_str("null"),
            J::B(b) => out.push_str(if *b { "true" } else { "false" }),
            J::I(i) => out.push_str(&i.to_string()),
            J::S(s) => write_str(s, out),
            J::A(v) => {
                out.push('[');
                for (i, x) in v.iter().enumerate() {
                    if i > 0 {
                        out.push(',');
                    }
                    x.write(out);
                }
                out.push(']');
            }
            J::O(v) => {
                out.push('{');
                for (i, (k, x)) in v.iter().enumerate() {
                    if i > 0 {
                        out.push(',');
                    }
                    write_str(k, out);
                    out.push(':');
                    x.write(out);
                }
                out.push('}');
            }
        }
    }
}

fn write_str(s: &str, out: &mut String) {
    out.push('"');
    for c in s.chars() {
        match c {
            '"' => out.push_str("\\\""),
            '\\' => out.push_str("\\\\"),
            '\n' => out.push_str("\\n"),
            '\r' => out.push_str("\\r"),
            '\t' => out.push_str("\\t"),
            c if (c as u32) < 0x20 => out.push_str(&format!("\\u{:04x}", c as u32)),
            c => out.push(c),
        }
    }
    out.push('"');
}

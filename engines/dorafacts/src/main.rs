// dorafacts — dumps the syntax trees of Dora source files (parsed with the
// repository's own lossless parser, used as a parser only) as JSON.
//
// usage: dorafacts <root-dir> <out.json> <file.dora>...
// Fails closed (exit 3) on a parse error or a tree that does not reproduce the
// file bytes.
use dora_parser::ast::{SyntaxElement, SyntaxNode, SyntaxNodeBase};
use dora_parser::{compute_line_column, compute_line_starts, Parser};
use std::fmt::Write as _;
use std::sync::Arc;

fn esc(s: &str, out: &mut String) {
    out.push('"');
    for c in s.chars() {
        match c {
            '"' => out.push_str("\\\""),
            '\\' => out.push_str("\\\\"),
            '\n' => out.push_str("\\n"),
            '\r' => out.push_str("\\r"),
            '\t' => out.push_str("\\t"),
            c if (c as u32) < 0x20 => {
                let _ = write!(out, "\\u{:04x}", c as u32);
            }
            c => out.push(c),
        }
    }
    out.push('"');
}

fn dump(n: &SyntaxNode, ls: &[u32], out: &mut String, count: &mut usize) {
    *count += 1;
    let sp = n.span();
    let (line, _) = compute_line_column(ls, sp.start());
    let _ = write!(out, "[\"{:?}\",{},[", n.syntax_kind(), line);
    let mut first = true;
    for c in n.children_with_tokens() {
        match c {
            SyntaxElement::Node(c) => {
                if !first {
                    out.push(',');
                }
                first = false;
                dump(&c, ls, out, count);
            }
            SyntaxElement::Token(t) => {
                if t.is_trivia() {
                    continue;
                }
                *count += 1;
                if !first {
                    out.push(',');
                }
                first = false;
                let _ = write!(out, "[\"{:?}\",", t.syntax_kind());
                esc(t.text(), out);
                out.push(']');
            }
        }
    }
    out.push_str("]]");
}

fn main() {
    let args: Vec<String> = std::env::args().collect();
    if args.len() < 4 {
        eprintln!("usage: dorafacts <root> <out.json> <files...>");
        std::process::exit(2);
    }
    let root = &args[1];
    let mut out = String::with_capacity(64 << 20);
    out.push_str("{\"files\":{");
    let mut total = 0usize;
    for (i, f) in args[3..].iter().enumerate() {
        let content = match std::fs::read_to_string(f) {
            Ok(c) => c,
            Err(e) => {
                eprintln!("DORAFACTS-ERROR: cannot read {}: {}", f, e);
                std::process::exit(3);
            }
        };
        let (file, errors) = Parser::from_shared_string(Arc::new(content.clone())).parse();
        if !errors.is_empty() {
            eprintln!("DORAFACTS-ERROR: {} has {} parse error(s)", f, errors.len());
            std::process::exit(3);
        }
        let rootn = file.root();
        if rootn.green().to_string() != content {
            eprintln!("DORAFACTS-ERROR: {} does not round-trip", f);
            std::process::exit(3);
        }
        let ls = compute_line_starts(&content);
        if i > 0 {
            out.push(',');
        }
        let rel = f.strip_prefix(root.as_str()).unwrap_or(f).trim_start_matches('/');
        esc(rel, &mut out);
        out.push(':');
        let mut count = 0usize;
        dump(&rootn, &ls, &mut out, &mut count);
        total += count;
    }
    let _ = write!(out, "}},\"elements\":{}}}", total);
    std::fs::write(&args[2], out).expect("write");
}

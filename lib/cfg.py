"""MIR body wrapper: CFG, dominators, post-dominators, liveness, call sites."""
from collections import defaultdict


def callee_of(op):
    """operand → callee dict ({'d','r','k','g','tr','closure'}) or None (fn pointer / closure local)."""
    if op[0] == "k" and "fn" in op[1]:
        return op[1]["fn"]
    return None


def callee_name(fn):
    if fn is None:
        return None
    return fn.get("r") or fn.get("d")


class Call:
    __slots__ = ("block", "t", "fn", "name", "decl", "args", "dest", "target", "unwind", "line", "macro", "body")

    def __init__(self, body, block, t):
        self.body = body
        self.block = block
        self.t = t
        self.fn = callee_of(t["f"])
        self.name = callee_name(self.fn)          # resolved if possible
        self.decl = self.fn.get("d") if self.fn else None
        self.args = t["a"]
        self.dest = t["d"]
        self.target = t["t"]
        self.unwind = t["u"]
        self.line = t["l"]
        self.macro = t.get("m")

    def where(self):
        return "%s:%d" % (self.body.file, self.line)

    def __repr__(self):
        return "<call %s @%s bb%d>" % (self.name, self.where(), self.block)


def op_locals(op):
    """locals read by an operand"""
    if op[0] in ("c", "m"):
        return place_uses(op[1], as_def=False)
    return []


def place_uses(place, as_def):
    """locals *read* when a place is used (as_def: the place is being assigned)."""
    local, proj = place
    out = []
    for p in proj:
        if p.startswith("[_"):
            out.append(int(p[2:-1]))
    if not as_def:
        out.append(local)
    else:
        # assigning through a pointer or into a field reads the base
        if proj:
            out.append(local)
    return out


def rvalue_uses(rv):
    k = rv[0]
    if k in ("use", "repeat"):
        return op_locals(rv[1])
    if k == "ref":
        return place_uses(rv[2], False)
    if k in ("rawptr", "discr"):
        return place_uses(rv[1], False)
    if k == "cast":
        return op_locals(rv[2])
    if k == "bin":
        return op_locals(rv[2]) + op_locals(rv[3])
    if k == "un":
        return op_locals(rv[2])
    if k == "agg":
        out = []
        for o in rv[2]:
            out += op_locals(o)
        return out
    return []


class Body:
    def __init__(self, b):
        self.b = b
        self.path = b["path"]
        self.file = b["file"]
        self.line = b["line"]
        self.argc = b["argc"]
        self.locals = b["locals"]
        self.blocks = b["blocks"]
        self.n = len(self.blocks)
        self._succ = None
        self._pred = None
        self._dom = None
        self._pdom = None
        self._calls = None

    # ---- graph ------------------------------------------------------------
    def term_succ(self, i, with_unwind=False):
        t = self.blocks[i]["t"]
        k = t[0]
        out = []
        if k == "goto":
            out = [t[1]]
        elif k == "switch":
            out = [a[1] for a in t[2]] + [t[3]]
        elif k == "drop":
            out = [t[2]] + ([t[3]] if with_unwind and t[3] is not None else [])
        elif k == "call":
            c = t[1]
            if c["t"] is not None:
                out.append(c["t"])
            if with_unwind and c["u"] is not None:
                out.append(c["u"])
        elif k == "assert":
            out = [t[3]] + ([t[4]] if with_unwind and t[4] is not None else [])
        elif k == "asm":
            out = list(t[1])
        return out

    @property
    def succ(self):
        if self._succ is None:
            self._succ = [self.term_succ(i) for i in range(self.n)]
        return self._succ

    @property
    def pred(self):
        if self._pred is None:
            p = [[] for _ in range(self.n)]
            for i, ss in enumerate(self.succ):
                for s in ss:
                    p[s].append(i)
            self._pred = p
        return self._pred

    def reachable(self, start=0, avoid=()):
        seen = set()
        avoid = set(avoid)
        if start in avoid:
            return seen
        st = [start]
        while st:
            x = st.pop()
            if x in seen:
                continue
            seen.add(x)
            for s in self.succ[x]:
                if s not in seen and s not in avoid:
                    st.append(s)
        return seen

    def reachable_from_succ(self, block, avoid=()):
        """blocks reachable from the successors of `block` (not counting block itself unless looped)."""
        seen = set()
        avoid = set(avoid)
        st = [s for s in self.succ[block] if s not in avoid]
        while st:
            x = st.pop()
            if x in seen:
                continue
            seen.add(x)
            for s in self.succ[x]:
                if s not in seen and s not in avoid:
                    st.append(s)
        return seen

    def dominators(self):
        """dom[i] = set of blocks dominating i (normal edges only)."""
        if self._dom is None:
            reach = self.reachable(0)
            order = self._rpo(0)
            full = set(reach)
            dom = {i: set(full) for i in reach}
            dom[0] = {0}
            changed = True
            while changed:
                changed = False
                for i in order:
                    if i == 0:
                        continue
                    ps = [p for p in self.pred[i] if p in reach]
                    if not ps:
                        continue
                    new = set.intersection(*(dom[p] for p in ps)) | {i}
                    if new != dom[i]:
                        dom[i] = new
                        changed = True
            self._dom = dom
        return self._dom

    def _rpo(self, start):
        seen = set()
        out = []

        def dfs(x):
            stack = [(x, iter(self.succ[x]))]
            seen.add(x)
            while stack:
                node, it = stack[-1]
                adv = False
                for s in it:
                    if s not in seen:
                        seen.add(s)
                        stack.append((s, iter(self.succ[s])))
                        adv = True
                        break
                if not adv:
                    out.append(node)
                    stack.pop()
        dfs(start)
        out.reverse()
        return out

    def dominates(self, a, b):
        d = self.dominators()
        return b in d and a in d[b]

    def exits(self):
        """blocks ending in a normal return"""
        return [i for i in range(self.n) if self.blocks[i]["t"][0] == "ret" and not self.blocks[i]["c"]]

    def postdominators(self):
        """pdom[i] = set of blocks post-dominating i w.r.t. normal returns; diverging blocks
        (unreachable / calls that never return) post-dominate nothing and are ignored as exits."""
        if self._pdom is None:
            reach = self.reachable(0)
            exits = [e for e in self.exits() if e in reach]
            # nodes that can reach an exit
            can = set()
            st = list(exits)
            while st:
                x = st.pop()
                if x in can:
                    continue
                can.add(x)
                for p in self.pred[x]:
                    if p in reach and p not in can:
                        st.append(p)
            pdom = {i: set(can) for i in can}
            for e in exits:
                pdom[e] = {e}
            changed = True
            while changed:
                changed = False
                for i in can:
                    if i in exits:
                        continue
                    ss = [s for s in self.succ[i] if s in can]
                    if not ss:
                        continue
                    new = set.intersection(*(pdom[s] for s in ss)) | {i}
                    if new != pdom[i]:
                        pdom[i] = new
                        changed = True
            self._pdom = pdom
        return self._pdom

    def postdominates(self, a, b):
        """a post-dominates b: every path from b to a normal return passes a."""
        p = self.postdominators()
        return b in p and a in p[b]

    # ---- calls ------------------------------------------------------------
    @property
    def calls(self):
        if self._calls is None:
            out = []
            reach = self.reachable(0)
            for i, blk in enumerate(self.blocks):
                if blk["c"] or i not in reach:
                    continue
                t = blk["t"]
                if t[0] == "call":
                    out.append(Call(self, i, t[1]))
            self._calls = out
        return self._calls

    def calls_to(self, pred):
        if isinstance(pred, str):
            s = pred
            pred = lambda n: n is not None and (n == s or n.endswith("::" + s))
        return [c for c in self.calls if pred(c.name) or (c.decl != c.name and pred(c.decl))]

    def local_ty(self, i):
        return self.locals[i][0]

    def local_name(self, i):
        return self.locals[i][1]

    # ---- use/def ------------------------------------------------------------
    def stmt_use_def(self, s):
        """(uses, defs) of a statement; defs only for whole-local assignment."""
        k = s[0]
        if k == "a":
            place, rv = s[1], s[2]
            uses = rvalue_uses(rv) + place_uses(place, True)
            defs = [place[0]] if not place[1] else []
            return uses, defs
        if k == "setdiscr":
            return [s[1][0]], []
        if k == "assume":
            return op_locals(s[1]), []
        if k == "copy_nonoverlapping":
            return op_locals(s[1]) + op_locals(s[2]) + op_locals(s[3]), []
        return [], []

    def term_use_def(self, i):
        t = self.blocks[i]["t"]
        k = t[0]
        if k == "switch":
            return op_locals(t[1]), []
        if k == "drop":
            return place_uses(t[1], False), []
        if k == "assert":
            return op_locals(t[1]), []
        if k == "call":
            c = t[1]
            uses = op_locals(c["f"])
            for a in c["a"]:
                uses += op_locals(a)
            uses += place_uses(c["d"], True)
            defs = [c["d"][0]] if not c["d"][1] else []
            return uses, defs
        if k == "ret":
            return [0], []
        return [], []

    def liveness(self):
        """live_out[block] = set of locals live at the end of the block *after* its terminator's
        own effect is excluded, i.e. live on entry to some successor.  Returns (live_in, live_out)."""
        n = self.n
        use = [set() for _ in range(n)]
        deff = [set() for _ in range(n)]
        for i, blk in enumerate(self.blocks):
            seq = []
            for s in blk["s"]:
                if s[0] == "sd":
                    seq.append(([], [s[1]]))   # storage dead kills
                else:
                    seq.append(self.stmt_use_def(s))
            seq.append(self.term_use_def(i))
            u, d = set(), set()
            for (us, ds) in seq:
                for x in us:
                    if x not in d:
                        u.add(x)
                for x in ds:
                    d.add(x)
            use[i], deff[i] = u, d
        live_in = [set() for _ in range(n)]
        live_out = [set() for _ in range(n)]
        changed = True
        succ = [self.term_succ(i, with_unwind=False) for i in range(n)]
        while changed:
            changed = False
            for i in reversed(range(n)):
                lo = set()
                for s in succ[i]:
                    lo |= live_in[s]
                li = use[i] | (lo - deff[i])
                if lo != live_out[i] or li != live_in[i]:
                    live_out[i], live_in[i] = lo, li
                    changed = True
        return live_in, live_out

    # ---- loops ------------------------------------------------------------
    def natural_loops(self):
        """list of (header, body-set) for back edges t→h with h dom t."""
        loops = []
        dom = self.dominators()
        for t in dom:
            for h in self.succ[t]:
                if h in dom.get(t, ()):  # back edge
                    body = {h, t}
                    st = [t]
                    while st:
                        x = st.pop()
                        if x == h:
                            continue
                        for p in self.pred[x]:
                            if p not in body and p in dom:
                                body.add(p)
                                st.append(p)
                    loops.append((h, body))
        return loops


# ---- copy propagation helpers ------------------------------------------------

def simple_defs(body):
    """local → list of (block, stmt) assignments whose destination is the bare local."""
    defs = defaultdict(list)
    for i, blk in enumerate(body.blocks):
        for s in blk["s"]:
            if s[0] == "a" and not s[1][1]:
                defs[s[1][0]].append((i, s))
        t = blk["t"]
        if t[0] == "call" and not t[1]["d"][1]:
            defs[t[1]["d"][0]].append((i, ("callres", t[1])))
    return defs


def origin(body, op, defs=None, depth=0):
    """Trace an operand back through single-assignment copies / refs / casts.
    Returns a descriptor:
      ('const', k)            constant operand dict
      ('param', i, proj)      parameter i (1-based MIR local) with accumulated projection list
      ('call', calldict)      result of a call
      ('agg', kind, ops)      aggregate
      ('local', i, proj)      could not trace further
    """
    if defs is None:
        defs = simple_defs(body)
    if op[0] == "k":
        return ("const", op[1])
    local, proj = op[1]
    return origin_place(body, local, list(proj), defs, depth)


def origin_place(body, local, proj, defs, depth=0):
    if depth > 24:
        return ("local", local, proj)
    if 1 <= local <= body.argc:
        return ("param", local, proj)
    ds = defs.get(local, [])
    if len(ds) != 1:
        return ("local", local, proj)
    _, s = ds[0]
    if s[0] == "callres":
        return ("call", s[1], proj)
    rv = s[2]
    k = rv[0]
    if k == "use":
        o = rv[1]
        if o[0] == "k":
            return ("const", o[1])
        return origin_place(body, o[1][0], list(o[1][1]) + proj, defs, depth + 1)
    if k in ("ref", "rawptr"):
        pl = rv[2] if k == "ref" else rv[1]
        p2 = list(pl[1])
        # &(*x) cancels with a following deref
        if proj and proj[0] == "*":
            return origin_place(body, pl[0], p2 + proj[1:], defs, depth + 1)
        return origin_place(body, pl[0], p2 + ["&"] + proj, defs, depth + 1)
    if k == "cast":
        o = rv[2]
        if o[0] == "k":
            return ("const", o[1])
        return origin_place(body, o[1][0], list(o[1][1]) + proj, defs, depth + 1)
    if k == "agg":
        return ("agg", rv[1], rv[2], proj)
    if k == "discr":
        return ("discr", rv[1])
    if k == "bin":
        return ("bin", rv[1], rv[2], rv[3])
    if k == "un":
        return ("un", rv[1], rv[2])
    return ("local", local, proj)

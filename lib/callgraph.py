"""Whole-workspace call graph over the MIR facts (resolved callees; trait/dyn calls expand to all
workspace impls; creating a closure or taking a function's address counts as a possible call)."""
from collections import defaultdict

import cfg

WORKSPACE_LIBS = ["dora_parser", "dora_bytecode", "dora_symbol", "dora_asm", "dora_frontend", "dora_compiler",
                  "dora_cannon_compiler", "dora_boots_compiler", "dora_runtime", "dora_startup", "dora_format"]
WORKSPACE_BINS = ["dora", "dora_cannon_compiler", "dora_language_server", "dora_format", "run_unit_tests"]


def _walk_ops_for_fn_consts(x, out):
    if isinstance(x, list):
        if len(x) == 2 and x[0] == "k" and isinstance(x[1], dict):
            fn = x[1].get("fn")
            if fn:
                out.append(fn)
            return
        for c in x:
            _walk_ops_for_fn_consts(c, out)
    elif isinstance(x, dict):
        for v in x.values():
            _walk_ops_for_fn_consts(v, out)


class CallGraph:
    def __init__(self, F, libs=None, bins=None):
        self.F = F
        self.bodies = {}      # path -> (crate, raw mir body)
        self.edges = defaultdict(set)
        self.redges = defaultdict(set)
        self.edge_kind = {}   # (a,b) -> 'call'|'virtual'|'closure'|'ref'
        self.trait_impls = defaultdict(list)   # (trait path, method) -> [impl method path]
        self.fn_items = {}    # path -> fn item
        crates = []
        for n in (libs if libs is not None else WORKSPACE_LIBS):
            try:
                crates.append(F.crate(n, "lib"))
            except Exception:
                pass
        for n in (bins if bins is not None else WORKSPACE_BINS):
            try:
                crates.append(F.crate(n, "bin"))
            except Exception:
                pass
        self.crates = crates
        for c in crates:
            for im in c.items["impls"]:
                if im["trait"]:
                    for (name, path) in im["methods"]:
                        self.trait_impls[(im["trait"], name)].append(path)
            for f in c.items["fns"]:
                self.fn_items.setdefault(f["path"], f)
            for p, b in c.mir.items():
                self.bodies.setdefault(p, (c.name, b))
        for p, (cn, b) in self.bodies.items():
            self._scan(p, b)

    def _add(self, a, b, kind):
        if b is None:
            return
        self.edges[a].add(b)
        self.redges[b].add(a)
        self.edge_kind.setdefault((a, b), kind)

    def targets(self, fn):
        """possible concrete targets of a callee dict"""
        out = []
        k = fn.get("k")
        r = fn.get("r")
        d = fn.get("d")
        if fn.get("closure"):
            out.append((fn["closure"], "closure"))
        if k in ("virtual", "unresolved"):
            tr = fn.get("tr")
            if tr:
                name = d.rsplit("::", 1)[-1]
                for ip in self.trait_impls.get((tr, name), []):
                    out.append((ip, "virtual"))
                out.append((d, "virtual"))     # default method body, if any
            elif r or d:
                out.append((r or d, "call"))
        else:
            out.append((r or d, "call"))
        return out

    def _scan(self, p, b):
        for blk in b["blocks"]:
            for s in blk["s"]:
                if s[0] == "a":
                    rv = s[2]
                    if rv[0] == "agg" and rv[1][0] in ("closure", "coroutine"):
                        self._add(p, rv[1][1], "closure")
                    fns = []
                    _walk_ops_for_fn_consts(rv, fns)
                    for fn in fns:
                        for (t, kind) in self.targets(fn):
                            self._add(p, t, "ref")
            t = blk["t"]
            if t[0] == "call":
                c = t[1]
                fn = cfg.callee_of(c["f"])
                if fn is not None:
                    for (tp, kind) in self.targets(fn):
                        self._add(p, tp, kind)
                fns = []
                _walk_ops_for_fn_consts(c["a"], fns)
                for fn in fns:
                    for (tp, kind) in self.targets(fn):
                        self._add(p, tp, "ref")

    # ---- queries ------------------------------------------------------------
    def reachable_from(self, roots, stop=None):
        seen = set()
        st = list(roots)
        while st:
            x = st.pop()
            if x in seen:
                continue
            seen.add(x)
            if stop and stop(x):
                continue
            for y in self.edges.get(x, ()):
                if y not in seen:
                    st.append(y)
        return seen

    def callers_closure(self, seeds, stop=None):
        """all functions that may (transitively) reach one of the seeds"""
        seen = set()
        st = list(seeds)
        while st:
            x = st.pop()
            if x in seen:
                continue
            seen.add(x)
            for y in self.redges.get(x, ()):
                if y not in seen and not (stop and stop(y)):
                    st.append(y)
        return seen

    def path(self, src, dst_set, stop=None):
        """one shortest call path from src to any of dst_set (for messages)"""
        from collections import deque
        prev = {src: None}
        dq = deque([src])
        while dq:
            x = dq.popleft()
            if x in dst_set and x != src:
                out = []
                while x is not None:
                    out.append(x)
                    x = prev[x]
                return list(reversed(out))
            if stop and stop(x) and x != src:
                continue
            for y in sorted(self.edges.get(x, ())):
                if y not in prev:
                    prev[y] = x
                    dq.append(y)
        return None

    def find(self, suffix):
        out = [p for p in self.bodies if p == suffix or p.endswith("::" + suffix)]
        return out

    def body(self, path):
        e = self.bodies.get(path)
        return cfg.Body(e[1]) if e else None

"""Queries over Dora syntax trees dumped by dorafacts.

node  = [KIND, line, [children]]      token = [KIND, text]
"""


def is_tok(n):
    return len(n) == 2


def is_node(n):
    return len(n) == 3


def kids(n):
    return n[2] if is_node(n) else []


def nodes(n):
    return [c for c in kids(n) if is_node(c)]


def toks(n):
    return [c for c in kids(n) if is_tok(c)]


def child(n, kind):
    for c in kids(n):
        if c[0] == kind:
            return c
    return None


def children(n, kind):
    return [c for c in kids(n) if c[0] == kind]


def text(n):
    """canonical text: tokens joined with single spaces only where needed"""
    out = []
    _text(n, out)
    s = ""
    for t in out:
        if s and (s[-1].isalnum() or s[-1] == "_") and (t[0].isalnum() or t[0] == "_"):
            s += " "
        s += t
    return s


def _text(n, out):
    if is_tok(n):
        out.append(n[1])
    else:
        for c in n[2]:
            _text(c, out)


def walk(n):
    st = [n]
    while st:
        x = st.pop()
        if is_node(x):
            yield x
            for c in reversed(x[2]):
                if is_node(c):
                    st.append(c)


def ident(n):
    t = child(n, "IDENTIFIER")
    return t[1] if t else None


def modifiers(n):
    ml = child(n, "MODIFIER_LIST")
    out = []
    if ml:
        for m in children(ml, "MODIFIER"):
            out.append(text(m))
    return out


class Fn:
    __slots__ = ("name", "qual", "node", "file", "line", "container", "mods")

    def __init__(self, name, qual, node, file, container):
        self.name = name
        self.qual = qual
        self.node = node
        self.file = file
        self.line = node[1]
        self.container = container
        self.mods = modifiers(node)

    @property
    def body(self):
        return child(self.node, "BLOCK_EXPR")

    def params(self):
        pl = child(self.node, "PARAM_LIST")
        out = []
        if pl:
            for li in children(pl, "LIST_ITEM"):
                p = child(li, "PARAM")
                if p is None:
                    continue
                pat = nodes(p)[0] if nodes(p) else None
                ty = nodes(p)[1] if len(nodes(p)) > 1 else None
                out.append((text(pat) if pat else "_", text(ty) if ty else None))
        return out

    def return_type(self):
        # the type node after PARAM_LIST and COLON
        seen_params = False
        for c in kids(self.node):
            if c[0] == "PARAM_LIST":
                seen_params = True
            elif seen_params and is_node(c) and c[0].endswith("_TYPE"):
                return text(c)
        return None

    def where(self):
        return "%s:%d" % (self.file, self.line)


def functions(tree, file, skip_mods=("tests",)):
    """all functions of a file with qualified names 'mod::Impl::name' (impl of a trait: 'Trait for Type::name')"""
    out = []

    def elems(n, prefix, container):
        for c in nodes(n):
            k = c[0]
            if k == "FUNCTION":
                nm = ident(c)
                out.append(Fn(nm, prefix + nm, c, file, container))
            elif k == "IMPL":
                tys = [x for x in nodes(c) if x[0].endswith("_TYPE")]
                if child(c, "FOR_KW") and len(tys) >= 2:
                    cn = "%s for %s" % (text(tys[0]), text(tys[1]))
                elif tys:
                    cn = text(tys[0])
                else:
                    cn = "?"
                el = child(c, "ELEMENT_LIST")
                if el:
                    elems(el, prefix + cn + "::", cn)
            elif k == "TRAIT":
                el = child(c, "ELEMENT_LIST")
                if el:
                    elems(el, prefix + (ident(c) or "?") + "::", "trait " + (ident(c) or "?"))
            elif k == "MODULE":
                nm = ident(c)
                if nm in skip_mods:
                    continue
                el = child(c, "ELEMENT_LIST")
                if el:
                    elems(el, prefix + nm + "::", container)
    elems(tree, "", None)
    return out


def consts(tree):
    """top-level (and module-level) `const NAME: T = <lit>` → {name: int|str}"""
    out = {}
    for n in walk(tree):
        if n[0] == "CONST":
            nm = ident(n)
            v = None
            for c in nodes(n):
                v2 = lit_value(c)
                if v2 is not None:
                    v = v2
            out[nm] = v
    return out


def lit_value(n):
    if n[0] == "LIT_INT_EXPR":
        t = toks(n)[0][1].replace("_", "")
        for suf in ("i32", "i64", "u8", "f32", "f64"):
            if t.endswith(suf) and not t.startswith("0x"):
                t = t[:-len(suf)]
        for suf in ("i32", "i64", "u8"):
            if t.startswith("0x") and t.endswith(suf):
                t = t[:-len(suf)]
        try:
            if t.startswith("0x"):
                return int(t, 16)
            if t.startswith("0b"):
                return int(t[2:], 2)
            return int(t)
        except ValueError:
            return None
    if n[0] == "UN_EXPR":
        ts = toks(n)
        if ts and ts[0][1] == "-" and nodes(n):
            v = lit_value(nodes(n)[0])
            return -v if v is not None else None
    if n[0] == "PAREN_EXPR" and nodes(n):
        return lit_value(nodes(n)[0])
    if n[0] == "LIT_BOOL_EXPR":
        return toks(n)[0][1] == "true"
    return None


class Call:
    __slots__ = ("node", "callee", "recv", "name", "args", "line")

    def __init__(self, node):
        self.node = node
        self.line = node[1]
        if node[0] == "METHOD_CALL_EXPR":
            ns = nodes(node)
            self.recv = ns[0]
            self.name = ident(node)
            self.callee = text(self.recv) + "." + (self.name or "?")
        else:
            ns = nodes(node)
            self.recv = None
            self.callee = text(ns[0])
            self.name = self.callee.split("::")[-1].split(".")[-1]
        al = child(node, "ARGUMENT_LIST")
        self.args = []
        if al:
            for li in children(al, "LIST_ITEM"):
                a = child(li, "ARGUMENT")
                if a is not None:
                    es = nodes(a)
                    self.args.append(es[-1] if es else a)

    def arg_text(self, i):
        return text(self.args[i]) if i < len(self.args) else None


def calls(n):
    for x in walk(n):
        if x[0] in ("CALL_EXPR", "METHOD_CALL_EXPR"):
            yield Call(x)


def stmts(block):
    """statement/expression nodes of a BLOCK_EXPR in order"""
    return [c for c in nodes(block)]


def match_arms(m):
    """MATCH_EXPR → list of (pattern_text, guard_node|None, body_node)"""
    out = []
    for a in walk(m):
        if a[0] == "MATCH_ARM" :
            ns = nodes(a)
            if not ns:
                continue
            pat = ns[0]
            body = ns[-1]
            out.append((text(pat), pat, body))
    return out


def direct_match_arms(m):
    out = []
    for li in kids(m):
        if is_node(li) and li[0] == "MATCH_ARM":
            ns = nodes(li)
            out.append((text(ns[0]), ns[0], ns[-1]))
        elif is_node(li) and li[0] == "LIST_ITEM":
            for a in children(li, "MATCH_ARM"):
                ns = nodes(a)
                out.append((text(ns[0]), ns[0], ns[-1]))
    return out

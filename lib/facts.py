"""Fact production and loading.

Facts are a pure function of /repo's working tree.  They are rebuilt from the
*current* tree whenever the tree hash is new and cached under /verif/.cache.
E1 = rsfacts (rustc_private driver under `cargo +nightly check`), E2 = dorafacts
(the repository's own dora-parser used as a parser only).
"""
import fcntl
import glob
import hashlib
import json
import os
import re
import shutil
import subprocess
import sys
import tempfile
import time

VERIF = os.path.dirname(os.path.dirname(os.path.abspath(__file__)))
REPO = os.environ.get("VERIF_REPO", "/repo")
CACHE = os.path.join(VERIF, ".cache")
RSFACTS_DIR = os.path.join(VERIF, "engines", "rsfacts")
DORAFACTS_DIR = os.path.join(VERIF, "engines", "dorafacts")
RSFACTS_BIN = os.path.join(RSFACTS_DIR, "target", "release", "rsfacts")
DORAFACTS_BIN = os.path.join(DORAFACTS_DIR, "target", "release", "dorafacts")


class AnalysisError(Exception):
    """/repo could not be analysed (does not build / does not parse)."""

    def __init__(self, stage, detail):
        super().__init__("%s: %s" % (stage, detail))
        self.stage = stage
        self.detail = detail


def _source_files(repo):
    out = []
    for root, dirs, files in os.walk(repo):
        rel = os.path.relpath(root, repo)
        top = rel.split(os.sep)[0]
        if top in ("target", ".git", "bench", "editors", "test"):
            dirs[:] = []
            continue
        dirs[:] = sorted(d for d in dirs if d not in ("target", ".git"))
        for f in sorted(files):
            if f.endswith((".rs", ".dora", ".toml")) or f in ("Cargo.lock", "rust-toolchain"):
                out.append(os.path.join(root, f))
    return out


PACKAGES = [x for x in os.environ.get("VERIF_PACKAGES", "").split(",") if x]


def tree_hash(repo=REPO):
    h = hashlib.sha256()
    h.update(("pkgs=" + ",".join(PACKAGES)).encode())
    # the engines are part of the function from tree to facts
    for extra in sorted(glob.glob(os.path.join(RSFACTS_DIR, "src", "*.rs"))
                        + glob.glob(os.path.join(DORAFACTS_DIR, "src", "*.rs"))):
        h.update(extra.encode())
        with open(extra, "rb") as fh:
            h.update(fh.read())
    for p in _source_files(repo):
        h.update(os.path.relpath(p, repo).encode())
        h.update(b"\0")
        with open(p, "rb") as fh:
            h.update(hashlib.sha256(fh.read()).digest())
    return h.hexdigest()[:24]


def _env():
    env = dict(os.environ)
    env["CARGO_NET_OFFLINE"] = "true"
    return env


def _nightly_sysroot():
    return subprocess.check_output(["rustc", "+nightly", "--print", "sysroot"], text=True, env=_env()).strip()


def build_engines(verbose=True):
    """Build rsfacts and dorafacts (offline).  Cheap when already built."""
    for d in (RSFACTS_DIR,):
        r = subprocess.run(["cargo", "build", "--release", "--offline"], cwd=d, env=_env(),
                           stdout=subprocess.PIPE, stderr=subprocess.STDOUT, text=True)
        if r.returncode != 0:
            raise AnalysisError("build-engine:" + os.path.basename(d), r.stdout[-2000:])
    _build_dorafacts()


def _build_dorafacts():
    # dorafacts path-depends on /repo/dora-parser: rebuilt from the current tree.
    lock_src = os.path.join(REPO, "Cargo.lock")
    lock_dst = os.path.join(DORAFACTS_DIR, "Cargo.lock")
    try:
        if not os.path.exists(lock_dst) or open(lock_src, "rb").read() != open(lock_dst, "rb").read():
            shutil.copyfile(lock_src, lock_dst)
    except OSError:
        pass
    r = subprocess.run(["cargo", "build", "--release", "--offline"], cwd=DORAFACTS_DIR, env=_env(),
                       stdout=subprocess.PIPE, stderr=subprocess.STDOUT, text=True)
    if r.returncode != 0:
        first = [l for l in r.stdout.splitlines() if l.startswith("error")]
        raise AnalysisError("build-dorafacts", (first[0] if first else r.stdout[-1500:]))


def _run_rsfacts(outdir):
    if not os.path.exists(RSFACTS_BIN):
        build_engines()
    base = os.environ.get("VERIF_TMP", "/var/tmp")
    target = tempfile.mkdtemp(prefix="verif-rsf-target-", dir=base)
    try:
        env = _env()
        env["LD_LIBRARY_PATH"] = os.path.join(_nightly_sysroot(), "lib") + ":" + env.get("LD_LIBRARY_PATH", "")
        env["RUSTFLAGS"] = "-Zmir-opt-level=0 -Awarnings"
        env["RUSTC_WORKSPACE_WRAPPER"] = RSFACTS_BIN
        env["RSFACTS_OUT"] = outdir
        env["CARGO_TARGET_DIR"] = target
        env.pop("RUSTC_WRAPPER", None)
        sel = ["--workspace"]
        if PACKAGES:
            sel = []
            for pk in PACKAGES:
                sel += ["-p", pk]
        r = subprocess.run(["cargo", "+nightly", "check", "--offline"] + sel, cwd=REPO, env=env,
                           stdout=subprocess.PIPE, stderr=subprocess.STDOUT, text=True)
        if r.returncode != 0:
            lines = r.stdout.splitlines()
            first = [l for l in lines if l.startswith("error")]
            raise AnalysisError("cargo-check", (first[0] if first else "\n".join(lines[-15:])))
    finally:
        shutil.rmtree(target, ignore_errors=True)


A64_TARGET = "aarch64-unknown-linux-gnu"
A64_PACKAGES = ["dora-asm", "dora-compiler", "dora-cannon-compiler", "dora-runtime", "dora-startup"]
A64_TARGET_DIR = os.path.join(CACHE, "a64-target")
A64_RUSTFLAGS = "-Zmir-opt-level=0 -Awarnings"


def _a64_cargo(extra_env, sel, cwd, target_dir=None):
    """`cargo +nightly check -Zbuild-std --target aarch64-unknown-linux-gnu`: no aarch64 rust-std is installed, but
    rust-src is, and every crate the standard library needs is in the offline cargo cache (the same set miri's
    sysroot build uses), so core/alloc/std are *checked* from source for the foreign target.  Only metadata is
    produced: no linker, no aarch64 C toolchain is needed."""
    env = _env()
    env["LD_LIBRARY_PATH"] = os.path.join(_nightly_sysroot(), "lib") + ":" + env.get("LD_LIBRARY_PATH", "")
    env["RUSTFLAGS"] = A64_RUSTFLAGS
    env["CARGO_TARGET_DIR"] = target_dir or A64_TARGET_DIR
    env.pop("RUSTC_WRAPPER", None)
    env.pop("RUSTC_WORKSPACE_WRAPPER", None)
    env.update(extra_env)
    return subprocess.run(["cargo", "+nightly", "check", "--offline", "-Zbuild-std=core,alloc,std,panic_unwind",
                           "--target", A64_TARGET] + sel, cwd=cwd, env=env,
                          stdout=subprocess.PIPE, stderr=subprocess.STDOUT, text=True)


def prebuild_a64_sysroot():
    """bin/setup: check the standard library for aarch64 once so that later fact builds only check the workspace."""
    os.makedirs(CACHE, exist_ok=True)
    with open(os.path.join(CACHE, "a64-target.lock"), "w") as lk:
        fcntl.flock(lk, fcntl.LOCK_EX)
        r = _a64_cargo({}, ["-p", "dora-asm"], REPO)
        if r.returncode != 0:
            raise AnalysisError("a64-sysroot", r.stdout[-1500:])


def _run_rsfacts_a64(outdir):
    """The second Rust fact set: the workspace members that contain `cfg(target_arch = "aarch64")` code, type-checked
    for aarch64 with the same driver.  The target directory is kept (the standard library's metadata is a function of
    the toolchain only); the workspace members' fingerprints are removed first so that cargo cannot skip the driver."""
    if not os.path.exists(RSFACTS_BIN):
        build_engines()
    os.makedirs(CACHE, exist_ok=True)
    pk = [p for p in A64_PACKAGES if not PACKAGES or p in PACKAGES]
    if not pk:
        raise AnalysisError("a64", "no aarch64-relevant package among VERIF_PACKAGES=%s" % ",".join(PACKAGES))
    sel = []
    for p in pk:
        sel += ["-p", p]
    if os.environ.get("VERIF_REPO") and os.path.isdir(A64_TARGET_DIR):
        # self-test on a scratch copy of /repo: work on a private copy of the target directory (the standard
        # library's metadata is reused, the copies run in parallel instead of queueing on one target directory)
        base = os.environ.get("VERIF_TMP", "/var/tmp")
        private = tempfile.mkdtemp(prefix="verif-a64-target-", dir=base)
        try:
            with open(os.path.join(CACHE, "a64-target.lock"), "w") as lk:
                fcntl.flock(lk, fcntl.LOCK_SH)
                subprocess.run(["cp", "-a", A64_TARGET_DIR + "/.", private], check=False)
            for fp in glob.glob(os.path.join(private, "*", "debug", ".fingerprint", "dora*")) + \
                    glob.glob(os.path.join(private, "debug", ".fingerprint", "dora*")):
                shutil.rmtree(fp, ignore_errors=True)
            r = _a64_cargo({"RUSTC_WORKSPACE_WRAPPER": RSFACTS_BIN, "RSFACTS_OUT": outdir}, sel, REPO, private)
        finally:
            shutil.rmtree(private, ignore_errors=True)
    else:
        with open(os.path.join(CACHE, "a64-target.lock"), "w") as lk:
            fcntl.flock(lk, fcntl.LOCK_EX)
            for fp in glob.glob(os.path.join(A64_TARGET_DIR, "*", "debug", ".fingerprint", "dora*")) + \
                    glob.glob(os.path.join(A64_TARGET_DIR, "debug", ".fingerprint", "dora*")):
                shutil.rmtree(fp, ignore_errors=True)
            r = _a64_cargo({"RUSTC_WORKSPACE_WRAPPER": RSFACTS_BIN, "RSFACTS_OUT": outdir}, sel, REPO)
    if r.returncode != 0:
        lines = r.stdout.splitlines()
        first = [l for l in lines if l.startswith("error")]
        raise AnalysisError("cargo-check-aarch64", (first[0] if first else "\n".join(lines[-15:])))


def ensure_a64(d, verbose=True):
    """Facts for the aarch64 configuration, built lazily (only the rules that look at target-specific code ask)."""
    sub = os.path.join(d, "rs-a64")
    h = os.path.basename(d)[6:]
    lock = open(os.path.join(CACHE, "lock-a64-" + h), "w")
    fcntl.flock(lock, fcntl.LOCK_EX)
    try:
        if os.path.exists(os.path.join(sub, "OK")):
            return sub
        failed = os.path.join(sub, "FAILED")
        if os.path.exists(failed):
            st, det = open(failed).read().split("\n", 1)
            raise AnalysisError(st, det)
        shutil.rmtree(sub, ignore_errors=True)
        os.makedirs(sub)
        t0 = time.time()
        if verbose:
            print("[facts] building aarch64 facts for tree %s ..." % h, file=sys.stderr, flush=True)
        try:
            _run_rsfacts_a64(sub)
            need = [p.replace("-", "_") for p in A64_PACKAGES if not PACKAGES or p in PACKAGES]
            have = {os.path.basename(p).split(".")[0] for p in glob.glob(os.path.join(sub, "*.json"))}
            missing = [n for n in need if n not in have]
            if missing:
                raise AnalysisError("rsfacts-aarch64", "no fact file written for %s" % ",".join(missing))
        except AnalysisError as e:
            # a failure of the analysed tree (it does not compile) is a property of that tree and is cached; a failure
            # of the environment (scratch directory removed underneath the build, disk full) is not
            if not any(t in (e.detail or "") for t in ("does not exist", "No such file", "No space left")):
                with open(failed, "w") as fh:
                    fh.write("%s\n%s" % (e.stage, e.detail))
            else:
                shutil.rmtree(d, ignore_errors=True)
            raise
        if tree_hash() != h:
            shutil.rmtree(sub, ignore_errors=True)
            raise AnalysisError("facts", "/repo changed while aarch64 facts were extracted")
        with open(os.path.join(sub, "OK"), "w") as fh:
            fh.write("%.1f\n" % (time.time() - t0))
        if verbose:
            print("[facts] aarch64 facts done in %.1fs" % (time.time() - t0), file=sys.stderr, flush=True)
        return sub
    finally:
        fcntl.flock(lock, fcntl.LOCK_UN)
        lock.close()


def _run_dorafacts(outfile):
    _build_dorafacts()
    files = sorted(glob.glob(os.path.join(REPO, "pkgs", "**", "*.dora"), recursive=True))
    if len(files) < 50:
        raise AnalysisError("dorafacts", "only %d .dora files under pkgs/" % len(files))
    r = subprocess.run([DORAFACTS_BIN, REPO, outfile] + files, stdout=subprocess.PIPE, stderr=subprocess.STDOUT,
                       text=True)
    if r.returncode != 0:
        raise AnalysisError("dorafacts", r.stdout.strip()[-500:])


def ensure_facts(verbose=True, _retry=0):
    """Return the directory holding facts for /repo's current working tree."""
    os.makedirs(CACHE, exist_ok=True)
    h = tree_hash()
    d = os.path.join(CACHE, "facts-" + h)
    lock = open(os.path.join(CACHE, "lock-" + h), "w")     # per-tree lock: different trees build in parallel
    fcntl.flock(lock, fcntl.LOCK_EX)
    try:
        if os.path.exists(os.path.join(d, "OK")):
            try:
                os.utime(d)          # mark as in use (pruning is by age)
            except OSError:
                pass
            return d
        failed = os.path.join(d, "FAILED")
        if os.path.exists(failed):
            st, det = open(failed).read().split("\n", 1)
            raise AnalysisError(st, det)
        shutil.rmtree(d, ignore_errors=True)
        os.makedirs(os.path.join(d, "rs"))
        t0 = time.time()
        if verbose:
            print("[facts] building facts for tree %s ..." % h, file=sys.stderr, flush=True)
        try:
            _run_dorafacts(os.path.join(d, "dora.json"))
            _run_rsfacts(os.path.join(d, "rs"))
        except AnalysisError as e:
            # a failure of the analysed tree (it does not compile) is a property of that tree and is cached; a failure
            # of the environment (scratch directory removed underneath the build, disk full) is not
            if not any(t in (e.detail or "") for t in ("does not exist", "No such file", "No space left")):
                with open(failed, "w") as fh:
                    fh.write("%s\n%s" % (e.stage, e.detail))
            else:
                shutil.rmtree(d, ignore_errors=True)
            raise
        n = len(glob.glob(os.path.join(d, "rs", "*.json")))
        if n < (1 if PACKAGES else 16):
            with open(failed, "w") as fh:
                fh.write("rsfacts\nonly %d fact files written" % n)
            raise AnalysisError("rsfacts", "only %d fact files written" % n)
        if tree_hash() != h:
            # the tree changed while facts were being extracted: they describe no consistent state
            shutil.rmtree(d, ignore_errors=True)
            if _retry < 3:
                fcntl.flock(lock, fcntl.LOCK_UN)
                return ensure_facts(verbose, _retry + 1)
            raise AnalysisError("facts", "/repo keeps changing while facts are extracted")
        with open(os.path.join(d, "OK"), "w") as fh:
            fh.write("%.1f\n" % (time.time() - t0))
        if verbose:
            print("[facts] done in %.1fs (%d rust fact files)" % (time.time() - t0, n), file=sys.stderr, flush=True)
        # prune: keep the newest three fact dirs
        dirs = sorted(glob.glob(os.path.join(CACHE, "facts-*")), key=os.path.getmtime, reverse=True)
        for old in dirs[12:]:
            # never remove a cache entry that another check may still be reading: only entries unused for an hour
            if time.time() - os.path.getmtime(old) < 3600:
                continue
            if os.path.exists(os.path.join(old, "OK")) or os.path.exists(os.path.join(old, "FAILED")):
                shutil.rmtree(old, ignore_errors=True)
                for lk in ("lock-", "lock-a64-"):
                    try:
                        os.remove(os.path.join(CACHE, lk + os.path.basename(old)[6:]))
                    except OSError:
                        pass
        return d
    finally:
        fcntl.flock(lock, fcntl.LOCK_UN)
        lock.close()


_CRATE_RE = re.compile(r"(?<![\w$:])crate::")


class Facts:
    def __init__(self, d=None, sub="rs"):
        self.dir = d or ensure_facts()
        self.sub = sub
        self._rs = {}
        self._dora = None
        self._index = None
        self._a64 = None

    def a64(self):
        """The same workspace type-checked for aarch64 (`cfg(target_arch = "aarch64")` code: masm/arm64.rs, the arm64
        trampolines, cpu/arm64.rs).  Only the crates in A64_PACKAGES are present."""
        if self._a64 is None:
            ensure_a64(self.dir)
            self._a64 = Facts(self.dir, sub="rs-a64")
        return self._a64

    # ---- rust -----------------------------------------------------------
    def _files(self):
        if self._index is None:
            idx = {}
            for p in sorted(glob.glob(os.path.join(self.dir, self.sub, "*.json"))):
                name = os.path.basename(p)
                parts = name.split(".")
                crate, ctype = parts[0], parts[1]
                key = (crate, "bin" if "Executable" in ctype else ("proc" if "ProcMacro" in ctype else "lib"))
                idx.setdefault(key, p)
            self._index = idx
        return self._index

    def crates(self):
        return sorted(self._files().keys())

    def crate(self, name, kind="lib"):
        key = (name, kind)
        if key not in self._rs:
            p = self._files().get(key)
            if p is None:
                raise AnalysisError("facts", "no facts for crate %s (%s)" % (name, kind))
            raw = open(p).read()
            raw = _CRATE_RE.sub(name + "::", raw)
            self._rs[key] = CrateFacts(name, json.loads(raw))
        return self._rs[key]

    def all_crates(self, kinds=("lib", "bin")):
        out = []
        for (name, kind) in self.crates():
            if kind in kinds:
                out.append(self.crate(name, kind))
        return out

    # ---- dora -----------------------------------------------------------
    def dora(self):
        if self._dora is None:
            with open(os.path.join(self.dir, "dora.json")) as fh:
                self._dora = json.load(fh)
        return self._dora["files"]


class CrateFacts:
    def __init__(self, name, data):
        self.name = name
        self.data = data
        self.items = data["items"]
        self._hir = None
        self._mir = None

    @property
    def hir(self):
        if self._hir is None:
            self._hir = {}
            for b in self.data.get("hir", []):
                self._hir.setdefault(b["path"], b)
        return self._hir

    @property
    def mir(self):
        if self._mir is None:
            self._mir = {}
            for b in self.data.get("mir", []):
                self._mir.setdefault(b["path"], b)
        return self._mir

    def adt(self, suffix):
        for a in self.items["adts"]:
            if a["path"] == suffix or a["path"].endswith("::" + suffix):
                return a
        return None

    def fn(self, suffix):
        for a in self.items["fns"]:
            if a["path"] == suffix or a["path"].endswith("::" + suffix):
                return a
        return None

    def const(self, suffix):
        for a in self.items["consts"]:
            if a["path"] == suffix or a["path"].endswith("::" + suffix):
                return a
        return None

    def hir_fn(self, suffix):
        for p, b in self.hir.items():
            if p == suffix or p.endswith("::" + suffix):
                return b
        return None

    def mir_fn(self, suffix):
        for p, b in self.mir.items():
            if p == suffix or p.endswith("::" + suffix):
                return b
        return None


def repo_path(rel):
    return os.path.join(REPO, rel)


def read_repo(rel):
    with open(repo_path(rel)) as fh:
        return fh.read()

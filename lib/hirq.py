"""Queries over HIR s-expressions (JSON arrays, head = tag) produced by rsfacts."""


def is_node(x):
    return isinstance(x, list) and len(x) > 0 and isinstance(x[0], str)


def walk(e, enter_closures=True):
    """pre-order over all nodes"""
    st = [e]
    while st:
        x = st.pop()
        if isinstance(x, list):
            if is_node(x):
                yield x
                if x[0] == "closure" and not enter_closures:
                    continue
            for c in reversed(x):
                if isinstance(c, list):
                    st.append(c)


def unmacro(e):
    while is_node(e) and e[0] == "macro":
        e = e[2]
    return e


def strip(e):
    """look through macro wrappers, single-expression blocks, address-of and derefs"""
    while True:
        e = unmacro(e)
        if is_node(e) and e[0] == "block" and not e[1] and e[2] is not None:
            e = e[2]
            continue
        if is_node(e) and e[0] == "addr":
            e = e[2]
            continue
        if is_node(e) and e[0] == "un" and e[1] == "Deref":
            e = e[2]
            continue
        return e


class CallSite:
    __slots__ = ("node", "line", "callee", "name", "recv", "args", "is_method", "recv_ty")

    def __init__(self, node):
        self.node = node
        if node[0] == "call":
            self.line = node[1]
            c = node[2]
            self.callee = c[2] if is_node(c) and c[0] == "def" else None
            self.name = self.callee.rsplit("::", 1)[-1] if self.callee else None
            self.recv = None
            self.args = node[3]
            self.is_method = False
            self.recv_ty = None
        else:
            self.line = node[1]
            self.callee = node[2]
            self.name = node[3]
            self.recv = node[4]
            self.args = node[5]
            self.is_method = True
            self.recv_ty = node[6] if len(node) > 6 else None

    def all_args(self):
        return ([self.recv] if self.recv is not None else []) + list(self.args)

    def callee_is(self, suffix):
        c = self.callee
        return c is not None and (c == suffix or c.endswith("::" + suffix))


def calls(e, enter_closures=True):
    for n in walk(e, enter_closures):
        if n[0] in ("call", "mcall"):
            yield CallSite(n)


def calls_to(e, suffix):
    return [c for c in calls(e) if c.callee_is(suffix)]


def def_path(e):
    """['def', kind, path] → path (looking through macros/blocks/casts)"""
    e = strip(e)
    if is_node(e) and e[0] == "cast":
        return def_path(e[1])
    if is_node(e) and e[0] == "def":
        return e[2]
    if is_node(e) and e[0] == "ppath":
        return def_path(e[1])
    return None


def last(path):
    return path.rsplit("::", 1)[-1] if path else None


def local_name(e):
    e = strip(e)
    if is_node(e) and e[0] == "local":
        return e[1]
    return None


def lit_int(e):
    e = strip(e)
    if is_node(e) and e[0] == "cast":
        return lit_int(e[1])
    if is_node(e) and e[0] == "lit" and e[1] == "int":
        return e[2]
    if is_node(e) and e[0] == "un" and e[1] == "Neg":
        v = lit_int(e[2])
        return -v if v is not None else None
    return None


def match_arms(e):
    """for a ['match', scrut, arms, src] → list of (pattern, guard, body)"""
    return [(a[0], a[1], a[2]) for a in e[2]]


def pat_paths(p):
    """all constructor/const paths named by a pattern (through or-patterns)"""
    out = []
    if not is_node(p):
        return out
    k = p[0]
    if k == "por":
        for q in p[1]:
            out += pat_paths(q)
    elif k == "ppath":
        d = def_path(p[1])
        if d:
            out.append(d)
    elif k in ("pts", "pstruct"):
        d = def_path(p[1])
        if d:
            out.append(d)
    elif k == "pbind" and p[2] is not None:
        out += pat_paths(p[2])
    elif k == "pref":
        out += pat_paths(p[1])
    return out


def pat_is_wild(p):
    return is_node(p) and (p[0] == "pwild" or (p[0] == "pbind" and p[2] is None))


def is_panic_body(e):
    """body is a bare unreachable!/unimplemented!/panic!/todo! (possibly wrapped in single-expression blocks)"""
    e0 = e
    for _ in range(8):
        if is_node(e0) and e0[0] == "block" and len(e0[1]) + (1 if e0[2] is not None else 0) == 1:
            e0 = e0[1][0] if e0[1] else e0[2]
            continue
        if is_node(e0) and e0[0] == "macro":
            nm = e0[1].rstrip("!").split("::")[-1]
            for suf in ("_2021", "_2015"):
                if nm.endswith(suf):
                    nm = nm[:-len(suf)]
            if nm in ("unreachable", "unimplemented", "panic", "todo"):
                return True
            e0 = e0[2]
            continue
        break
    if is_node(e0) and e0[0] == "call" and is_node(e0[2]) and e0[2][0] == "def" and (
            e0[2][2].startswith("core::panicking::") or e0[2][2].startswith("std::rt::begin_panic")):
        return True
    return False


def render(e, depth=0):
    """short textual rendering for messages"""
    e = unmacro(e)
    if not is_node(e):
        return str(e)
    k = e[0]
    if k == "local":
        return e[1]
    if k == "def":
        return last(e[2])
    if k == "lit":
        return repr(e[2]) if e[1] == "str" else str(e[2])
    if k == "field":
        return "%s.%s" % (render(e[1]), e[2])
    if k == "mcall":
        return "%s.%s(%s)" % (render(e[4]), e[3], ", ".join(render(a) for a in e[5]))
    if k == "call":
        c = e[2]
        return "%s(%s)" % (render(c), ", ".join(render(a) for a in e[3]))
    if k == "bin":
        return "(%s %s %s)" % (render(e[2]), e[1], render(e[3]))
    if k == "un":
        return "%s(%s)" % (e[1], render(e[2]))
    if k == "cast":
        return "%s as %s" % (render(e[1]), last(e[2]))
    if k == "addr":
        return "&" + render(e[2])
    if k == "block":
        if not e[1] and e[2] is not None:
            return render(e[2])
        return "{..}"
    return "<%s>" % k

"""Check context: rule instances, violations, floors, known findings, evidence."""
import json
import os
import sys
import time

VERIF = os.path.dirname(os.path.dirname(os.path.abspath(__file__)))
EVIDENCE_DIR = os.environ.get("VERIF_EVIDENCE_DIR") or os.path.join(VERIF, "evidence")
KNOWN = os.path.join(VERIF, "known_findings.json")


def load_known():
    try:
        with open(KNOWN) as fh:
            return json.load(fh)
    except FileNotFoundError:
        return {"findings": [], "fixed": []}


class Rule:
    def __init__(self, check, name, text):
        self.check = check
        self.name = name
        self.text = text
        self.instances = 0          # rule instances evaluated
        self.nontrivial = set()     # distinct non-trivial instance keys
        self.samples = []
        self.violations = []        # (key, message, where)
        self.observations = []
        self.anchors = []
        self.floors = []            # (what, seen, floor)

    def instance(self, key, nontrivial=True, sample=None):
        self.instances += 1
        if nontrivial:
            self.nontrivial.add(key)
        if sample is not None and len(self.samples) < 4:
            self.samples.append(sample)

    def violation(self, key, message, where=None):
        """key: '<fn-or-site>:<detail>' (no line numbers)."""
        full = "%s:%s" % (self.name, key)
        if any(v[0] == full for v in self.violations):
            return
        self.violations.append((full, message, where))

    def observe(self, text):
        if len(self.observations) < 40:
            self.observations.append(text)

    def anchor(self, name, found):
        """An anchor the rule needs (function, type, table).  Missing ⇒ analysis failure."""
        self.anchors.append((name, bool(found)))
        if not found:
            full = "ANALYSIS:%s:anchor-missing:%s" % (self.name, name)
            self.violations.append((full, "anchor %s not found — the rule cannot vouch for anything" % name, None))
        return bool(found)

    def floor(self, what, seen, floor):
        self.floors.append((what, seen, floor))
        if seen < floor:
            full = "ANALYSIS:%s:floor:%s" % (self.name, what)
            self.violations.append((full, "saw %d %s, expected at least %d (counted by hand on the pinned tree)"
                                    % (seen, what, floor), None))


class Check:
    def __init__(self, pid, tier="quick"):
        self.pid = pid
        self.tier = tier
        self.t0 = time.time()
        self.rules = []
        self.assumptions = []
        self.trusted = ["nightly rustc name resolution/type check/MIR construction (host cfg)",
                        "/repo/dora-parser as parser for pkgs/**/*.dora (byte-exact round-trip asserted)"]
        self.seed = int(os.environ.get("VERIF_SEED", "0") or 0)
        self.extra = {}

    def rule(self, name, text):
        r = Rule(self, name, text)
        self.rules.append(r)
        return r

    def evidence_path(self):
        return os.path.join(EVIDENCE_DIR, "%s.json" % self.pid)

    def finish(self, analysis_error=None):
        known = load_known()
        known_keys = {}
        for f in known.get("findings", []):
            if f.get("property") == self.pid:
                known_keys[f["key"]] = f
        all_v = []
        for r in self.rules:
            for (key, msg, where) in r.violations:
                all_v.append((r, key, msg, where))
        new_v = [v for v in all_v if v[1] not in known_keys]
        kf = [v for v in all_v if v[1] in known_keys]
        instances = sum(r.instances for r in self.rules)
        nontrivial = sum(len(r.nontrivial) for r in self.rules)
        samples = []
        for r in self.rules:
            for s in r.samples[:3]:
                samples.append({"rule": r.name, "instance": s})
        expl = []
        for r in self.rules:
            line = "%s — %s; instances=%d distinct_nontrivial=%d anchors=%d/%d floors=[%s] violations=%d" % (
                r.name, r.text, r.instances, len(r.nontrivial), sum(1 for a in r.anchors if a[1]), len(r.anchors),
                ", ".join("%s:%d>=%d" % f for f in r.floors), len(r.violations))
            expl.append(line)
        if analysis_error is not None:
            expl.insert(0, "ANALYSIS-ERROR: %s — nothing was decided on this run" % analysis_error)
        observations = []
        for r in self.rules:
            for o in r.observations:
                observations.append("%s: %s" % (r.name, o))
        cov = {
            "explanation": "\n".join(expl) if expl else "no rules ran",
            "evaluations": max(instances, 1) if analysis_error is None else 1,
            "distinct_nontrivial": nontrivial,
            "rule": "rule instances = syntactic/MIR constructs of /repo matched by each static rule; "
                    "non-trivial = the instance exercised the rule's comparison (e.g. a call site with a resolved "
                    "callee, an instruction method with a register operand); distinct = distinct instance keys",
            "samples": samples if samples else [{"note": "no instances"}],
            "rules": [{"name": r.name, "text": r.text, "instances": r.instances,
                       "distinct_nontrivial": len(r.nontrivial),
                       "anchors": [{"name": a, "found": f} for a, f in r.anchors],
                       "floors": [{"what": w, "seen": s, "floor": f} for w, s, f in r.floors],
                       "violations": [{"key": k, "message": m, "where": w} for k, m, w in r.violations]}
                      for r in self.rules],
            "observations": observations,
            "known_findings_reported": [v[1] for v in kf],
            "trusted_base": self.trusted,
            "checker_cmd": "bin/check %s --tier %s" % (self.pid, self.tier),
            "exhaustive": analysis_error is None,
        }
        cov.update(self.extra)
        ev = {
            "property_id": self.pid,
            "tier": self.tier,
            "seed": self.seed,
            "level": "other",
            "coverage": cov,
            "assumptions": self.assumptions,
            "wall_s": round(time.time() - self.t0, 2),
            "violations": len(new_v),
        }
        os.makedirs(EVIDENCE_DIR, exist_ok=True)
        tmp = self.evidence_path() + ".tmp"
        with open(tmp, "w") as fh:
            json.dump(ev, fh, indent=1)
        os.replace(tmp, self.evidence_path())
        for r in self.rules:
            print("[%s] %-28s instances=%-5d nontrivial=%-5d violations=%d" % (
                self.pid, r.name, r.instances, len(r.nontrivial), len(r.violations)))
        for (r, key, msg, where) in kf:
            print("KNOWN-FINDING: property=%s %s — %s" % (self.pid, key, known_keys[key].get("what", msg)))
        if analysis_error is not None:
            print("ANALYSIS-ERROR: %s" % analysis_error)
            return 2
        if new_v:
            for (r, key, msg, where) in new_v:
                print("  violation %s\n      %s%s" % (key, msg, ("\n      at %s" % where) if where else ""))
            print("VIOLATION property=%s replay=%s" % (self.pid, self.evidence_path()))
            return 1
        return 0
